// C09 — color_converted_view(v)(x,y) and copy_and_convert_pixels agree with color_convert(v(x,y)).
// 3x3 images whose pixels are consecutive tuples of the source lattice (all lattice tuples are used:
// ceil(L^n / 9) images per type pair), interleaved and planar storage on both sides, plain /
// transposed / flipped / sub-image source views.  For every pixel the expectation is computed by the
// free function color_convert on a *value* copy of v(x,y); results are compared channel by channel,
// exactly.  Compiled in two parts (-DC09_VPART=0/1: the type pairs are split).  Built without
// sanitizers: this is a pure value comparison, ASan+UBSan make this TU ten times slower to compile,
// and the memory side of views is the business of C01-C04.
#include "c09_common.hpp"

using namespace c09;

template <class SrcImg, class DstImg, bool Derived = false> struct ViewPair
{
    using SV = typename SrcImg::view_t; using SP = typename SrcImg::value_type;
    using DP = typename DstImg::value_type;
    using ST = chan_t<SP>; using DT = chan_t<DP>;
    enum { SN = gil::num_channels<SP>::value, DN = gil::num_channels<DP>::value };
    vh::Ctx& ctx; std::string pid; long nfail = 0;

    std::string px(SP const& s) const { ST v[4]; Sem<SP>::get(s, v); std::string r = "("; for (int k = 0; k < SN; ++k) { if (k) r += ","; r += Ch<ST>::str(v[k]); } return r + ")"; }
    static bool same(DP const& a, DP const& b) { DT x[4], y[4]; Sem<DP>::get(a, x); Sem<DP>::get(b, y); for (int k = 0; k < DN; ++k) if (!(x[k] == y[k])) return false; return true; }
    static std::string dpx(DP const& a) { DT x[4]; Sem<DP>::get(a, x); std::string r = "("; for (int k = 0; k < DN; ++k) { if (k) r += ","; r += Ch<DT>::str(x[k]); } return r + ")"; }

    template <class V> void check_view(V const& v, const char* vname, long img)
    {
        auto cv = gil::color_converted_view<DP>(v);
        auto it = cv.begin();
        for (int y = 0; y < v.height(); ++y)
            for (int x = 0; x < v.width(); ++x, ++it)
            {
                SP s = v(x, y);                    // value copy of the source pixel
                DP e; gil::color_convert(s, e);
                DP a = cv(x, y);
                DP b = *it;
                DP c = *cv.xy_at(x, y);
                ++ctx.evaluations; ++ctx.nontrivial;
                if (!same(a, e) && nfail++ < 32)
                    ctx.fail(vh::S() << pid << "/" << vname << "/img" << img << "(" << x << "," << y << ")=" << px(s), "converted-view-differs", vh::S() << "view " << dpx(a) << " color_convert " << dpx(e));
                if ((!same(b, e) || !same(c, e)) && nfail++ < 32)
                    ctx.fail(vh::S() << pid << "/" << vname << "/img" << img << "(" << x << "," << y << ")=" << px(s), "converted-view-iterator-differs", vh::S() << "iterator " << dpx(b) << " locator " << dpx(c) << " color_convert " << dpx(e));
            }
        DstImg dst(v.width(), v.height());
        gil::copy_and_convert_pixels(v, gil::view(dst));
        for (int y = 0; y < v.height(); ++y)
            for (int x = 0; x < v.width(); ++x)
            {
                SP s = v(x, y); DP e; gil::color_convert(s, e);
                DP a = gil::view(dst)(x, y);
                ++ctx.evaluations; ++ctx.nontrivial;
                if (!same(a, e) && nfail++ < 32)
                    ctx.fail(vh::S() << pid << "/" << vname << "/img" << img << "(" << x << "," << y << ")=" << px(s), "copy_and_convert-differs", vh::S() << "copy " << dpx(a) << " color_convert " << dpx(e));
            }
    }

    template <class V> void derived_views(V const& v, long img, std::true_type)
    {
        check_view(gil::transposed_view(v), "transposed", img); check_view(gil::flipped_left_right_view(v), "flipLR", img); check_view(gil::rotated90cw_view(v), "rot90cw", img);
        ++ctx.witness["derived_source_views"];
    }
    template <class V> void derived_views(V const&, long, std::false_type) {}

    void run(const char* sname, const char* dname, long big)
    {
        pid = std::string(sname) + ">" + dname;
        ctx.cur = pid;
        std::vector<ST> L = lattice<ST>(big);
        size_t n = L.size(), idx[4] = {0, 0, 0, 0};
        bool done = false; long img = 0;
        while (!done)
        {
            SrcImg src(4, 4);       // the 3x3 image is the sub-view (1,1)-(3,3) or (0,0)-(2,2) of a 4x4 image
            auto full = gil::view(src);
            gil::fill_pixels(full, SP());
            auto v = gil::subimage_view(full, int(img % 2), int(img % 2), 3, 3);
            for (int y = 0; y < 3; ++y)
                for (int x = 0; x < 3; ++x)
                {
                    ST sv[4]; for (int k = 0; k < SN; ++k) sv[k] = L[idx[k]];
                    SP s; Sem<SP>::set(s, sv);
                    v(x, y) = s;
                    if (!done) { int k = SN - 1; while (k >= 0 && ++idx[k] == n) { idx[k] = 0; --k; } if (k < 0) done = true; }
                }
            check_view(v, "sub", img);
            if (img % 7 == 0) derived_views(v, img, std::integral_constant<bool, Derived>());
            if (img == 1) { SP s0 = v(1, 1); DP e; gil::color_convert(s0, e); ctx.sample(pid + ": view(1,1)=" + px(s0) + " -> " + dpx(e)); }
            ++img;
        }
        ++ctx.witness["view_pairs"];
        if (gil::is_planar<SV>::value) ++ctx.witness["view_pairs_planar_source"];
        if (gil::is_planar<typename DstImg::view_t>::value) ++ctx.witness["view_pairs_planar_destination"];
        if (std::is_same<SP, DP>::value) ++ctx.witness["view_pairs_identity_shortcut"];
        ctx.counters["images"] += img;
    }
};

#define VP(S, D) if (ctx.take()) { ViewPair<gil::S, gil::D> p{ctx}; p.run(#S, #D, big); }
#define VPD(S, D) if (ctx.take()) { ViewPair<gil::S, gil::D, true> p{ctx}; p.run(#S, #D, big); }   // + transposed / flipped / rotated source views
#ifndef C09_VPART
#define C09_VPART 0
#endif

VH_GROUP(views)
{
    vh::ubsan_counts() = false;
    long big = ctx.B("big", 0);
#if C09_VPART == 0
    VPD(rgb8_image_t, gray8_image_t) VP(rgb8_image_t, cmyk8_image_t) VP(rgb8_image_t, rgba8_image_t) VP(rgb8_image_t, bgr8_image_t)
    VP(rgb8_image_t, rgb8_image_t) VP(rgb8_image_t, rgb16_image_t) VP(rgb8_image_t, rgb32f_image_t) VP(rgb8_image_t, gray16_image_t)
    VP(bgr8_image_t, gray8_image_t) VP(bgr8_image_t, argb8_image_t) VP(bgr8_image_t, cmyk8_image_t)
    VP(rgba8_image_t, rgb8_image_t) VP(rgba8_image_t, gray8_image_t) VPD(rgba8_image_t, cmyk8_image_t) VP(rgba8_image_t, bgra8_image_t) VP(argb8_image_t, rgb8_image_t)
    VP(abgr8_image_t, rgba16_image_t)
    VP(cmyk8_image_t, rgb8_image_t) VP(cmyk8_image_t, gray8_image_t) VP(cmyk8_image_t, rgba8_image_t) VP(cmyk8_image_t, cmyk16_image_t)
    VP(gray8_image_t, rgb8_image_t)
#else
    VP(gray8_image_t, rgba8_image_t) VP(gray8_image_t, cmyk8_image_t) VP(gray8_image_t, gray16_image_t)
    VP(rgb8_planar_image_t, gray8_image_t) VPD(rgb8_planar_image_t, cmyk8_planar_image_t) VP(rgb8_image_t, rgba8_planar_image_t)
    VP(rgba8_planar_image_t, rgb8_planar_image_t) VP(cmyk8_planar_image_t, rgb8_image_t) VP(rgba8_planar_image_t, gray8_image_t)
    VP(rgb16_image_t, gray16_image_t) VP(rgb16_image_t, cmyk16_image_t)
    VP(rgb16_image_t, rgb8_image_t) VP(rgb16_planar_image_t, rgba8_image_t)
    VP(rgba16_image_t, rgb16_image_t) VP(cmyk16_image_t, rgb16_planar_image_t) VP(gray16_image_t, rgb8_image_t)
    VP(rgb32f_image_t, gray32f_image_t) VPD(rgb32f_image_t, cmyk32f_image_t) VP(rgb32f_image_t, rgb8_image_t) VP(rgba32f_image_t, rgb32f_planar_image_t)
    VP(cmyk32f_image_t, rgb32f_image_t) VP(gray32f_image_t, rgb16_image_t)
#endif
}

// function-backed (virtual_2d_locator) source views: color_converted_view goes through the locator's add_deref hook,
// which has to carry position and per-dimension steps of transposed / stepped views unchanged
struct C09VirtualFn
{
    using const_t = C09VirtualFn; using value_type = gil::rgb8_pixel_t; using reference = value_type; using const_reference = value_type;
    using argument_type = gil::point_t; using result_type = reference;
    static constexpr bool is_mutable = false;
    result_type operator()(argument_type const& p) const { return value_type((unsigned char)(17 * p.x + 3), (unsigned char)(29 * p.y + 5), (unsigned char)(7 * p.x + 13 * p.y + 1)); }
};
template <class DstImg> static void virtual_pair(vh::Ctx& ctx, const char* dname)
{
    using loc_t = gil::virtual_2d_locator<C09VirtualFn, false>;
    using view_t = gil::image_view<loc_t>;
    ViewPair<gil::rgb8_image_t, DstImg> p{ctx};
    p.pid = std::string("virtual_rgb8>") + dname;
    long img = 0;
    for (int w = 1; w <= 6; w += 5) for (int h = 2; h <= 9; h += 7, ++img)
    {
        view_t v(w, h, loc_t(gil::point_t(0, 0), gil::point_t(1, 1), C09VirtualFn()));
        p.check_view(v, "plain", img);
        p.check_view(gil::transposed_view(v), "transposed", img);
        p.check_view(gil::rotated90cw_view(v), "rot90cw", img);
        p.check_view(gil::rotated90ccw_view(v), "rot90ccw", img);
        p.check_view(gil::flipped_left_right_view(gil::transposed_view(v)), "transposed.flipLR", img);
        p.check_view(gil::subsampled_view(gil::transposed_view(v), 2, 1), "transposed.subsampled21", img);
        p.check_view(gil::subsampled_view(gil::rotated180_view(v), 1, 3), "rot180.subsampled13", img);
    }
    ++ctx.witness["virtual_source_views"];
}
// Colour conversion stacked on a view whose dereference adaptor already carries run-time state: nth_channel_view(n) of a
// colour-converted (non-basic) view, then color_converted_view / copy_and_convert_pixels on top.  The expectation is computed from the
// cmyk pixels directly: channel n of color_convert(cmyk -> rgb), then color_convert(gray -> rgb).  n >= 1 distinguishes a composed
// function object that kept its inner state from one that was default-constructed.
VH_GROUP(stacked_adaptors)
{
    if (!ctx.take()) return;
    gil::cmyk8_image_t img(3, 3);
    int k = 0;
    for (auto& p : gil::view(img)) { p = gil::cmyk8_pixel_t(uint8_t(10 + 23 * k), uint8_t(200 - 19 * k), uint8_t(5 + 31 * k), uint8_t(3 * k)); ++k; }
    auto cv = gil::color_converted_view<gil::rgb8_pixel_t>(gil::const_view(img));
    for (int n = 0; n < 3; ++n)
    {
        auto ch = gil::nth_channel_view(cv, n);
        auto top = gil::color_converted_view<gil::rgb8_pixel_t>(ch);
        gil::rgb8_image_t dst(3, 3);
        gil::copy_and_convert_pixels(ch, gil::view(dst));
        auto it = top.begin();
        for (int y = 0; y < 3; ++y) for (int x = 0; x < 3; ++x, ++it)
        {
            gil::rgb8_pixel_t mid; gil::color_convert(gil::const_view(img)(x, y), mid);
            gil::gray8_pixel_t g(mid[n]); gil::rgb8_pixel_t want; gil::color_convert(g, want);
            gil::rgb8_pixel_t a = top(x, y), b = *it, c = gil::view(dst)(x, y);
            ++ctx.evaluations; if (n > 0) ++ctx.nontrivial;
            const std::string id = vh::S() << "stacked_adaptors/cmyk8>rgb8>channel" << n << ">rgb8/(" << x << "," << y << ")";
            if (!(a == want)) ctx.fail(id, "converted-view-differs", vh::S() << "view gives (" << int(a[0]) << "," << int(a[1]) << "," << int(a[2]) << ") expected (" << int(want[0]) << "," << int(want[1]) << "," << int(want[2]) << ")");
            if (!(b == want)) ctx.fail(id, "converted-view-iterator-differs", "");
            if (!(c == want)) ctx.fail(id, "copy_and_convert-differs", "");
        }
        ++ctx.witness["conversion_stacked_on_stateful_adaptor"];
    }
}

VH_GROUP(virtual_views)
{
    vh::ubsan_counts() = false;
    if (ctx.take()) virtual_pair<gil::gray8_image_t>(ctx, "gray8");
    if (ctx.take()) virtual_pair<gil::rgba8_image_t>(ctx, "rgba8");
    if (ctx.take()) virtual_pair<gil::cmyk8_image_t>(ctx, "cmyk8");
    if (ctx.take()) virtual_pair<gil::rgb16_image_t>(ctx, "rgb16");
}

VH_MAIN
