// C17 — matrix3x2 algebra: operator*, point*matrix / transform, get_translate/scale/rotate, inverse.
//
// Finite matrix set S(level): linear part a..d over LIN, translation e,f over TR, all dyadic with at most one
// fractional bit, so products of up to three matrices are exactly representable in float and double and
// the reference (integer arithmetic in units of 1/8) must be met bit for bit.
//   level 0: LIN={-1,0,1,2}            TR={-1,0,1/2,2}           -> 4096 matrices (the design set)
//   level 1: LIN={-2,-1,-1/2,0,1/2,1,2,3}  TR={-5/2,-1,0,1/2,2,7}    -> 147456 matrices
// Oracles (clauses of the statement):
//   product           A*B equals the reference composition "apply A, then B" (row-vector convention of
//                     point*matrix, which is what transform() documents)            — exact
//   associativity     (A*B)*C == A*(B*C)                                             — exact
//   compose           transform(A*B,p) == transform(B,transform(A,p))               — exact
//   translate/scale/rotate   get_translate(t): p->p+t, get_scale(s): p->(sx*x,sy*y), get_rotate(r): rotation
//                     by r (vs long double cosl/sinl, 1e-12); products of them compose as such
//   inverse           inverse(m)*m == m*inverse(m) == I within 1e-12*max(1,|m|max*|inv|max); points mapped by
//                     m and then inverse(m) return within 1e-9
#include "vh.hpp"
#include <boost/gil/point.hpp>
#include <boost/gil/extension/numeric/affine.hpp>
#include <cmath>

namespace gil = boost::gil;

struct IM { long a, b, c, d, e, f; };    // integer matrix; the unit is carried by the caller

static const double LIN0[] = {-1, 0, 1, 2}, TR0[] = {-1, 0, 0.5, 2};
static const double LIN1[] = {-2, -1, -0.5, 0, 0.5, 1, 2, 3}, TR1[] = {-2.5, -1, 0, 0.5, 2, 7};
static const double LINS[] = {-1, 0, 2}, TRS[] = {-1, 0.5};       // the small set used for the inner two factors of triples

struct MSet
{
    const double* lin; int nl; const double* tr; int nt;
    long size() const { return long(nl) * nl * nl * nl * nt * nt; }
    template <class T> gil::matrix3x2<T> get(long i) const
    {
        int jf = int(i % nt); i /= nt; int ie = int(i % nt); i /= nt;
        int id = int(i % nl); i /= nl; int ic = int(i % nl); i /= nl; int ib = int(i % nl); i /= nl; int ia = int(i);
        return gil::matrix3x2<T>(T(lin[ia]), T(lin[ib]), T(lin[ic]), T(lin[id]), T(tr[ie]), T(tr[jf]));
    }
};
static MSet mset(int level)
{
    if (level == 0) return MSet{LIN0, 4, TR0, 4};
    if (level == 1) return MSet{LIN1, 8, TR1, 6};
    return MSet{LINS, 3, TRS, 2};
}

template <class T> static std::string mstr(gil::matrix3x2<T> const& m)
{
    char b[200]; snprintf(b, sizeof b, "[%.9g,%.9g,%.9g,%.9g,%.9g,%.9g]", double(m.a), double(m.b), double(m.c), double(m.d), double(m.e), double(m.f)); return b;
}
template <class T> static IM to_int2(gil::matrix3x2<T> const& m)     // entries in units of 1/2
{
    return IM{long(m.a * 2), long(m.b * 2), long(m.c * 2), long(m.d * 2), long(m.e * 2), long(m.f * 2)};
}
// reference composition "first m1, then m2" on points (x,y) -> (a x + c y + e, b x + d y + f).
// Inputs: m1 in units 1/u1, m2 in units 1/u2; output in units 1/(u1*u2).
static IM ref_mul(IM const& m1, long u1, IM const& m2, long u2)
{
    // x1 = a1 x + c1 y + e1 ; y1 = b1 x + d1 y + f1 ;  x2 = a2 x1 + c2 y1 + e2 ; y2 = b2 x1 + d2 y1 + f2
    IM r;
    r.a = m2.a * m1.a + m2.c * m1.b;  r.c = m2.a * m1.c + m2.c * m1.d;  r.e = m2.a * m1.e + m2.c * m1.f + m2.e * u1;
    r.b = m2.b * m1.a + m2.d * m1.b;  r.d = m2.b * m1.c + m2.d * m1.d;  r.f = m2.b * m1.e + m2.d * m1.f + m2.f * u1;
    (void)u2;
    return r;
}
template <class T> static bool eq_scaled(gil::matrix3x2<T> const& m, IM const& r, long unit)
{
    return double(m.a) * unit == double(r.a) && double(m.b) * unit == double(r.b) && double(m.c) * unit == double(r.c)
        && double(m.d) * unit == double(r.d) && double(m.e) * unit == double(r.e) && double(m.f) * unit == double(r.f);
}
template <class T> static bool eq(gil::matrix3x2<T> const& x, gil::matrix3x2<T> const& y)
{
    return x.a == y.a && x.b == y.b && x.c == y.c && x.d == y.d && x.e == y.e && x.f == y.f;
}
template <class T> struct TName;
template <> struct TName<double> { static const char* name() { return "f64"; } };
template <> struct TName<float> { static const char* name() { return "f32"; } };

static const long CH = 64;     // shard unit = CH consecutive outer matrices

// ---- pairs: product against the reference, composition on points
template <class T>
static void pairs(vh::Ctx& ctx, int outer_level, int inner_level)
{
    MSet SA = mset(outer_level), SB = mset(inner_level);
    const long PTS[][2] = {{0, 0}, {1, 0}, {0, 1}, {3, -2}, {-5, 7}};
    for (long a0 = 0; a0 < SA.size(); a0 += CH)
    {
        if (!ctx.take()) continue;
        long fails_here = 0;
        ctx.cur = vh::S() << "pairs/" << TName<T>::name() << "/A" << a0;
        for (long ai = a0; ai < std::min(SA.size(), a0 + CH); ++ai)
        {
            auto A = SA.get<T>(ai); IM iA = to_int2(A);
            for (long bi = 0; bi < SB.size(); ++bi)
            {
                auto B = SB.get<T>(bi); IM iB = to_int2(B);
                auto AB = A * B;
                ++ctx.evaluations;
                bool identityA = iA.a == 2 && iA.b == 0 && iA.c == 0 && iA.d == 2 && iA.e == 0 && iA.f == 0;
                bool identityB = iB.a == 2 && iB.b == 0 && iB.c == 0 && iB.d == 2 && iB.e == 0 && iB.f == 0;
                if (!identityA && !identityB) ++ctx.nontrivial;
                IM r = ref_mul(iA, 2, iB, 2);
                if (!eq_scaled(AB, r, 4) && ++fails_here <= 64)
                    ctx.fail(vh::S() << TName<T>::name() << "/A=" << mstr(A) << "/B=" << mstr(B), "product-differs-from-reference", "A*B=" + mstr(AB));
                { auto M = A; M *= B; if (!eq(M, AB) && ++fails_here <= 64) ctx.fail(vh::S() << TName<T>::name() << "/A=" << mstr(A) << "/B=" << mstr(B), "operator*=-differs-from-operator*", ""); }
                if (bi == 0)
                {
                    // the same object on both sides (in-place squaring): the right-hand operand aliases the object being overwritten
                    auto AA = A * A; auto M = A; M *= M; ++ctx.evaluations; ++ctx.witness["self_multiplication"];
                    if (!eq(M, AA) && ++fails_here <= 64) ctx.fail(vh::S() << TName<T>::name() << "/A=" << mstr(A) << "/self", "operator*=-with-itself-differs-from-A*A", "A*=A gives " + mstr(M) + ", A*A = " + mstr(AA));
                }
                for (auto const& pt : PTS)
                {
                    gil::point<std::ptrdiff_t> p(pt[0], pt[1]);
                    gil::point<T> q1 = gil::transform(AB, p);
                    gil::point<T> q2 = gil::transform(B, gil::transform(A, p));
                    // independent: apply the integer reference of A*B (units 1/4)
                    double rx = double(r.a * pt[0] + r.c * pt[1] + r.e) / 4, ry = double(r.b * pt[0] + r.d * pt[1] + r.f) / 4;
                    if (!(q1.x == q2.x && q1.y == q2.y && double(q1.x) == rx && double(q1.y) == ry) && ++fails_here <= 64)
                        ctx.fail(vh::S() << TName<T>::name() << "/A=" << mstr(A) << "/B=" << mstr(B) << "/p=(" << pt[0] << "," << pt[1] << ")", "transform-does-not-compose",
                                 vh::S() << "transform(A*B,p)=(" << double(q1.x) << "," << double(q1.y) << ") transform(B,transform(A,p))=(" << double(q2.x) << "," << double(q2.y) << ") reference=(" << rx << "," << ry << ")");
                }
            }
        }
        ++ctx.witness["pair_units"];
        if (a0 == 0) { auto A = SA.get<T>(SA.size() * 7 / 11 + 3), B = SB.get<T>(SB.size() * 5 / 13 + 2); ctx.sample(vh::S() << TName<T>::name() << " " << mstr(A) << " * " << mstr(B) << " = " << mstr(A * B)); }
        if (ctx.timed_out()) return;
    }
}
VH_GROUP(pairs)
{
    int lo = int(ctx.B("outer", 0)), li = int(ctx.B("inner", 0));
    pairs<double>(ctx, lo, li); pairs<float>(ctx, lo, li);
}

// ---- triples: associativity, exact
template <class T>
static void triples(vh::Ctx& ctx, int outer_level)
{
    MSet SA = mset(outer_level), SS = mset(2);
    for (long a0 = 0; a0 < SA.size(); a0 += CH)
    {
        if (!ctx.take()) continue;
        long fails_here = 0;
        ctx.cur = vh::S() << "triples/" << TName<T>::name() << "/A" << a0;
        for (long ai = a0; ai < std::min(SA.size(), a0 + CH); ++ai)
        {
            auto A = SA.get<T>(ai); IM iA = to_int2(A);
            for (long bi = 0; bi < SS.size(); ++bi)
            {
                auto B = SS.get<T>(bi); IM iB = to_int2(B);
                auto AB = A * B; IM rAB = ref_mul(iA, 2, iB, 2);
                for (long ci = 0; ci < SS.size(); ++ci)
                {
                    auto C = SS.get<T>(ci);
                    auto L = AB * C, R = A * (B * C);
                    ++ctx.evaluations; ++ctx.nontrivial;
                    IM r = ref_mul(rAB, 4, to_int2(C), 2);
                    if (!(eq(L, R) && eq_scaled(L, r, 8)) && ++fails_here <= 64)
                        ctx.fail(vh::S() << TName<T>::name() << "/A=" << mstr(A) << "/B=" << mstr(B) << "/C=" << mstr(C), eq(L, R) ? "triple-product-differs-from-reference" : "not-associative",
                                 "(A*B)*C=" + mstr(L) + " A*(B*C)=" + mstr(R));
                }
            }
        }
        ++ctx.witness["triple_units"];
        if (ctx.timed_out()) return;
    }
}
VH_GROUP(triples)
{
    int lo = int(ctx.B("outer", 2));
    triples<double>(ctx, lo); triples<float>(ctx, lo);
}

// ---- generators: get_translate / get_scale / get_rotate and their composition
template <class T>
static void generators(vh::Ctx& ctx)
{
    using M = gil::matrix3x2<T>;
    const double V[] = {-2.5, -1, 0, 0.5, 1, 2, 7};
    const long PTS[][2] = {{0, 0}, {1, 0}, {0, 1}, {3, -2}, {-5, 7}};
    const long double PI = 3.14159265358979323846264338327950288L;
    const double rtol = sizeof(T) == 8 ? 1e-12 : 1e-5;      // float matrices: float precision
    std::string tn = TName<T>::name();
    if (!ctx.take()) return;
    // translate / scale: exact
    for (double tx : V) for (double ty : V)
    {
        M t1 = M::get_translate(T(tx), T(ty)), t2 = M::get_translate(gil::point<T>(T(tx), T(ty)));
        M s1 = M::get_scale(T(tx), T(ty)), s2 = M::get_scale(gil::point<T>(T(tx), T(ty)));
        std::string id = vh::S() << tn << "/v=(" << tx << "," << ty << ")";
        if (!eq(t1, t2)) ctx.fail(id, "get_translate-overloads-differ");
        if (!eq(s1, s2)) ctx.fail(id, "get_scale-overloads-differ");
        if (tx == ty && !eq(M::get_scale(T(tx)), s1)) ctx.fail(id, "get_scale-overloads-differ");
        for (auto const& pt : PTS)
        {
            gil::point<std::ptrdiff_t> p(pt[0], pt[1]);
            auto q = gil::transform(t1, p); auto r = gil::transform(s1, p);
            ++ctx.evaluations; ++ctx.nontrivial;
            if (!(double(q.x) == pt[0] + tx && double(q.y) == pt[1] + ty)) ctx.fail(vh::S() << id << "/p=(" << pt[0] << "," << pt[1] << ")", "translate-is-not-p+t");
            if (!(double(r.x) == pt[0] * tx && double(r.y) == pt[1] * ty)) ctx.fail(vh::S() << id << "/p=(" << pt[0] << "," << pt[1] << ")", "scale-is-not-componentwise");
        }
        // composition as documented: the left factor is applied first
        for (double ux : V) for (double uy : V)
        {
            M tt = t1 * M::get_translate(T(ux), T(uy)), ss = s1 * M::get_scale(T(ux), T(uy));
            M ts = t1 * M::get_scale(T(ux), T(uy)), st = M::get_scale(T(ux), T(uy)) * t1;
            ++ctx.evaluations; ++ctx.nontrivial;
            std::string id2 = vh::S() << id << "/u=(" << ux << "," << uy << ")";
            if (!eq(tt, M::get_translate(T(tx + ux), T(ty + uy)))) ctx.fail(id2, "translate*translate-is-not-translate-of-sum");
            if (!eq(ss, M::get_scale(T(tx * ux), T(ty * uy)))) ctx.fail(id2, "scale*scale-is-not-scale-of-product");
            // translate then scale: p -> (p+t)*u ; scale then translate: p -> p*u + t
            if (!eq(ts, M(T(ux), 0, 0, T(uy), T(tx * ux), T(ty * uy)))) ctx.fail(id2, "translate*scale-wrong-order");
            if (!eq(st, M(T(ux), 0, 0, T(uy), T(tx), T(ty)))) ctx.fail(id2, "scale*translate-wrong-order");
        }
    }
    ++ctx.witness["generator_translate_scale"];
    // rotations by multiples of pi/12 over two turns, both signs
    for (int k = -24; k <= 24; ++k)
    {
        long double ang = k * PI / 12;
        M r = M::get_rotate(T(ang));
        std::string id = vh::S() << tn << "/rot" << k << "pi12";
        for (auto const& pt : PTS)
        {
            gil::point<std::ptrdiff_t> p(pt[0], pt[1]);
            auto q = gil::transform(r, p);
            long double ex = cosl(ang) * pt[0] - sinl(ang) * pt[1], ey = sinl(ang) * pt[0] + cosl(ang) * pt[1];
            ++ctx.evaluations; if (k % 24) ++ctx.nontrivial;
            if (!(fabsl(q.x - ex) <= rtol * 16 && fabsl(q.y - ey) <= rtol * 16))
                ctx.fail(vh::S() << id << "/p=(" << pt[0] << "," << pt[1] << ")", "rotate-is-not-rotation", vh::S() << "got (" << double(q.x) << "," << double(q.y) << ") expected (" << double(ex) << "," << double(ey) << ")");
        }
        for (int j = -24; j <= 24; ++j)
        {
            M rr = r * M::get_rotate(T(j * PI / 12)), e = M::get_rotate(T((k + j) * PI / 12));
            ++ctx.evaluations; ++ctx.nontrivial;
            double d = std::max(std::max(std::fabs(double(rr.a - e.a)), std::fabs(double(rr.b - e.b))), std::max(std::fabs(double(rr.c - e.c)), std::fabs(double(rr.d - e.d))));
            if (!(d <= rtol * 16 && rr.e == 0 && rr.f == 0)) ctx.fail(vh::S() << id << "*rot" << j << "pi12", "rotate*rotate-is-not-rotate-of-sum", vh::S() << "max entry difference " << d);
        }
        // rotation about a centre c: T(-c) * R * T(c) fixes c
        for (double cx : V) for (double cy : V)
        {
            M m = M::get_translate(T(-cx), T(-cy)) * r * M::get_translate(T(cx), T(cy));
            auto q = gil::transform(m, gil::point<T>(T(cx), T(cy)));
            ++ctx.evaluations; ++ctx.nontrivial;
            if (!(std::fabs(double(q.x) - cx) <= rtol * 64 && std::fabs(double(q.y) - cy) <= rtol * 64))
                ctx.fail(vh::S() << id << "/centre=(" << cx << "," << cy << ")", "rotation-about-centre-moves-centre");
        }
    }
    ++ctx.witness["generator_rotate"];
    ctx.sample(tn + ": get_rotate(pi/6) = " + mstr(M::get_rotate(T(PI / 6))));
}
VH_GROUP(generators) { generators<double>(ctx); generators<float>(ctx); }

// ---- inverse
template <class T>
static void inverse_one(vh::Ctx& ctx, gil::matrix3x2<T> const& m, std::string const& id, long& fails_here, double det_exact)
{
    const double rtol = sizeof(T) == 8 ? 1e-12 : 2e-6, ptol = sizeof(T) == 8 ? 1e-9 : 1e-3;
    ++ctx.evaluations;
    if (det_exact == 0) { ++ctx.witness["singular_skipped"]; return; }
    ++ctx.nontrivial; ++ctx.witness["nonsingular"];
    auto inv = gil::inverse(m);
    auto amax = [](gil::matrix3x2<T> const& x) { return std::max(std::max(std::max(std::fabs(double(x.a)), std::fabs(double(x.b))), std::max(std::fabs(double(x.c)), std::fabs(double(x.d)))), std::max(std::fabs(double(x.e)), std::fabs(double(x.f)))); };
    double tol = rtol * std::max(1.0, amax(m) * amax(inv));
    auto near_id = [&](gil::matrix3x2<T> const& x) { return std::fabs(double(x.a) - 1) <= tol && std::fabs(double(x.b)) <= tol && std::fabs(double(x.c)) <= tol && std::fabs(double(x.d) - 1) <= tol && std::fabs(double(x.e)) <= tol && std::fabs(double(x.f)) <= tol; };
    auto L = inv * m, R = m * inv;
    if (!near_id(L) && ++fails_here <= 64) ctx.fail(id, "inverse(m)*m-is-not-identity", "inverse=" + mstr(inv) + " product=" + mstr(L));
    if (!near_id(R) && ++fails_here <= 64) ctx.fail(id, "m*inverse(m)-is-not-identity", "inverse=" + mstr(inv) + " product=" + mstr(R));
    const long PTS[][2] = {{0, 0}, {1, 0}, {0, 1}, {3, 2}, {-2, 5}};
    for (auto const& pt : PTS)
    {
        gil::point<T> p{T(pt[0]), T(pt[1])};
        auto back = gil::transform(inv, gil::transform(m, p));
        double ptl = ptol * std::max(1.0, amax(m) * amax(inv));
        if (!(std::fabs(double(back.x) - pt[0]) <= ptl && std::fabs(double(back.y) - pt[1]) <= ptl) && ++fails_here <= 64)
            ctx.fail(vh::S() << id << "/p=(" << pt[0] << "," << pt[1] << ")", "map-then-inverse-does-not-return", vh::S() << "back=(" << double(back.x) << "," << double(back.y) << ")");
    }
}
template <class T>
static void inverses(vh::Ctx& ctx, int level)
{
    MSet SA = mset(level);
    for (long a0 = 0; a0 < SA.size(); a0 += CH * 16)
    {
        if (!ctx.take()) continue;
        long fails_here = 0;
        ctx.cur = vh::S() << "inverse/" << TName<T>::name() << "/A" << a0;
        for (long ai = a0; ai < std::min(SA.size(), a0 + CH * 16); ++ai)
        {
            auto m = SA.get<T>(ai); IM i = to_int2(m);
            inverse_one<T>(ctx, m, vh::S() << TName<T>::name() << "/m=" << mstr(m), fails_here, double(i.a * i.d - i.b * i.c));
        }
        if (ctx.timed_out()) return;
    }
    // rotations by multiples of pi/6 composed with scale and translation (always non-singular)
    if (ctx.take())
    {
        long fails_here = 0;
        using M = gil::matrix3x2<T>;
        const double PI = 3.14159265358979323846;
        for (int k = 0; k < 12; ++k) for (double s : {0.5, 1.0, 2.0, -3.0}) for (double tx : {-2.5, 0.0, 7.0}) for (double ty : {-1.0, 0.5})
        {
            M m = M::get_scale(T(s), T(1 / s)) * M::get_rotate(T(k * PI / 6)) * M::get_translate(T(tx), T(ty));
            inverse_one<T>(ctx, m, vh::S() << TName<T>::name() << "/scale(" << s << "," << 1 / s << ")*rot" << k << "pi6*translate(" << tx << "," << ty << ")", fails_here, 1.0);
            ++ctx.witness["inverse_of_rotations"];
        }
        long si = SA.size() * 7 / 11 + 3;
        for (;; --si) { IM i = to_int2(SA.get<T>(si)); if (i.a * i.d - i.b * i.c != 0) break; }
        ctx.sample(vh::S() << TName<T>::name() << ": inverse(" << mstr(SA.get<T>(si)) << ") = " << mstr(gil::inverse(SA.get<T>(si))));
    }
}
VH_GROUP(inverse)
{
    int l = int(ctx.B("level", 0));
    inverses<double>(ctx, l); inverses<float>(ctx, l);
}

VH_MAIN
