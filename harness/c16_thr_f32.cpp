// C16 (part 1b) — threshold_binary / threshold_truncate on gray32f (channel type float32_t, the scoped
// [0,1] float channel).  NOT part of the registered runs while threshold.hpp does not compile for this
// channel type (operands of ?: are `float32_t` and `int`; drafts/Fnew_C16_threshold_float32_channel_compile.patch).
// The overloads that take the maximum from std::numeric_limits<float32_t> are not run: numeric_limits is
// not specialised for the scoped channel class, so "maximum numeric limit of channel" is not defined.
#include "c16_threshold.hpp"

namespace gil = boost::gil;
using namespace c16;

VH_GROUP(thr_gray32f) { vh::ubsan_counts() = false; run_gray<float, gil::gray32f_pixel_t, false>(ctx, "gray32f"); ++ctx.witness["thr_float32_t_channel"]; }

VH_MAIN
