// F_C09-b (C09): cmyk -> rgb adds K to C*(1-K) in the *signed* channel domain, so for signed channel types
// white and black both come out as garbage (white cmyk8s -> mid grey, black -> mid grey).
// g++ -std=c++14 -I/repo/include F_C09_cmyk_signed_repro.cpp && ./a.out   expected: (127,127,127) and (-128,-128,-128)
#include <boost/gil.hpp>
#include <cstdio>
int main()
{
    namespace gil = boost::gil;
    gil::cmyk8s_pixel_t white(-128, -128, -128, -128), black(-128, -128, -128, 127);
    gil::rgb8s_pixel_t w, b;
    gil::color_convert(white, w); gil::color_convert(black, b);
    std::printf("cmyk8s white -> rgb8s(%d,%d,%d)\ncmyk8s black -> rgb8s(%d,%d,%d)\n", w[0], w[1], w[2], b[0], b[1], b[2]);
    return !(w[0] == 127 && b[0] == -128);
}
