// c04_common.hpp — shared machinery of the C04 harness TUs (pixel algorithms == the obvious (x,y) loop).
//
// A *family* (Fam*) is one static GIL view type together with the run-time "kinds" of memory
// organisation that this one type can describe (contiguous, padded rows, interior sub-view, ...).
// The dispatch inside algorithm.hpp depends on the static iterator types (raw pixel pointer, planar
// iterator, step iterator, bit-aligned iterator, iterator_from_2d) and on the run-time answer of
// is_1d_traversable(); families x kinds is exactly that cross product.
//
// Every case: the destination view lives in a canvas (vh::GuardBuf, exactly sized, surroundings
// ASan-poisoned + canary) with border / row padding / neighbouring pixels / neighbouring bits filled with
// a background; model = byte copy of the canvas; the obvious loop runs on the model through view(x,y);
// the GIL algorithm runs on the real canvas; ALL bytes of both canvases are compared.
#pragma once
#include "vh.hpp"
#include "guard.hpp"
#include <boost/gil.hpp>
#include <vector>
#include <cmath>
#include <cstring>
#include <string>
#include <type_traits>

// ---- direct observation of the memcmp fast paths: the sanitizer run-time calls this weak hook from its
// memcmp interceptor (equal_n_fn<pixel const*> / equal_n_fn<planar_pixel_iterator> call memcmp with a
// run-time length, which is never inlined). Used only for witnesses, never as an oracle.
namespace c04 { struct MemcmpTap { long calls = 0; long bytes = 0; bool on = false; }; inline MemcmpTap& tap() { static MemcmpTap t; return t; } }
extern "C" void __sanitizer_weak_hook_memcmp(void* pc, const void* a, const void* b, size_t n, int r)
{
    c04::MemcmpTap& t = c04::tap();
    if (t.on) { ++t.calls; t.bytes += long(n); }
}

namespace c04 {
namespace gil = boost::gil;
using u8 = unsigned char;
using Bytes = std::vector<u8>;

// ---------------------------------------------------------------- deterministic contents
inline void fill_pattern(u8* p, size_t n, unsigned salt, bool invert)
{
    uint32_t s = 0x9E3779B9u * (salt + 1u) + 12345u;
    for (size_t i = 0; i < n; ++i)
    {
        s = s * 1664525u + 1013904223u;
        u8 b = u8(s >> 24);
        p[i] = invert ? u8(~b) : b;
    }
}
inline uint32_t lcg(uint32_t k, uint32_t salt)
{
    uint32_t s = (k + 1u) * 2654435761u ^ (salt * 0x85EBCA6Bu + 0xC2B2AE35u);
    s ^= s >> 15; s *= 0x2C1B3C6Du; s ^= s >> 12; s *= 0x297A2D39u; s ^= s >> 15;
    return s;
}

// ---------------------------------------------------------------- channel helpers
template <class V> struct is_float_chan : std::is_same<V, gil::float32_t> {};

template <class Ch> struct chan_value
{
    using type = typename gil::channel_traits<typename std::remove_cv<typename std::remove_reference<Ch>::type>::type>::value_type;
};

template <class V> inline typename std::enable_if<!is_float_chan<V>::value, uint64_t>::type chan_max()
{ return uint64_t(gil::channel_traits<V>::max_value()); }

// value from a raw 32-bit number, always inside the channel's nominal range
template <class V> inline typename std::enable_if<!is_float_chan<V>::value, V>::type chan_make(uint32_t raw)
{ return V(uint64_t(raw >> 3) % (chan_max<V>() + 1)); }
template <class V> inline typename std::enable_if<is_float_chan<V>::value, V>::type chan_make(uint32_t raw)
{ return V(float((raw >> 3) % 1025u) / 1024.0f); }

// a value different from cur: which=0 toggles the least significant bit, which=1 the most significant one
template <class V> inline typename std::enable_if<!is_float_chan<V>::value, V>::type chan_other(V cur, int which)
{
    uint64_t m = chan_max<V>(), c = uint64_t(cur);
    uint64_t msb = (m + 1) >> 1;
    return V(which == 0 ? (c ^ 1u) : (c ^ msb));
}
template <class V> inline typename std::enable_if<is_float_chan<V>::value, V>::type chan_other(V cur, int which)
{
    float c = float(cur);
    if (which == 0) return V(c < 1.0f ? std::nextafterf(c, 2.0f) : std::nextafterf(c, 0.0f));   // 1 ulp
    return V(c >= 0.5f ? c - 0.5f : c + 0.5f);
}
template <class V> inline typename std::enable_if<!is_float_chan<V>::value, uint64_t>::type chan_bits(V v) { return uint64_t(v); }
template <class V> inline typename std::enable_if<is_float_chan<V>::value, uint64_t>::type chan_bits(V v)
{ float f = float(v); uint32_t b; std::memcpy(&b, &f, 4); return b; }

// extreme fills used only to compute which bits/bytes of a canvas belong to the view's pixels
template <class V> inline typename std::enable_if<!is_float_chan<V>::value, V>::type chan_extreme(bool hi)
{ return hi ? gil::channel_traits<V>::max_value() : gil::channel_traits<V>::min_value(); }
template <class V> inline typename std::enable_if<is_float_chan<V>::value, V>::type chan_extreme(bool hi)
{ uint32_t b = hi ? 0x7F7F7F7Fu : 0u; float f; std::memcpy(&f, &b, 4); return V(f); }

// ---------------------------------------------------------------- per-channel functors for static_for_each
struct GenFn        // channel i := chan_make(lcg(k, salt + i))
{
    uint32_t k, salt; int i;
    template <class Ch> void operator()(Ch&& ch) { using V = typename chan_value<Ch>::type; ch = chan_make<V>(lcg(k, salt + 7u * uint32_t(i))); ++i; }
};
struct HashFn
{
    uint64_t h;
    template <class Ch> void operator()(Ch&& ch) { using V = typename chan_value<Ch>::type; h = vh::mix(h, chan_bits<V>(V(ch))); }
};
struct TweakFn      // channel `target` := a different value
{
    int target, which, i;
    template <class Ch> void operator()(Ch&& ch)
    { using V = typename chan_value<Ch>::type; if (i == target) { V cur = V(ch); ch = chan_other<V>(cur, which); } ++i; }
};
struct SetChanBitsFn  // float channel `target` := given float (for +0/-0/NaN); no-op for other channel types
{
    int target; float f; int i;
    void operator()(gil::float32_t& ch) { if (i == target) ch = gil::float32_t(f); ++i; }
    template <class Ch> void operator()(Ch&&) { ++i; }
};
struct ExtremeFn
{
    bool hi;
    template <class Ch> void operator()(Ch&& ch) { using V = typename chan_value<Ch>::type; ch = chan_extreme<V>(hi); }
};

template <class Pixel> inline Pixel gen_pixel(uint32_t k, uint32_t salt)
{
    Pixel p;
    gil::static_for_each(p, GenFn{k, salt, 0});
    return p;
}
template <class P> inline uint64_t hash_pixel(P const& p)
{
    HashFn f = gil::static_for_each(p, HashFn{0x1234567ull});
    return f.h;
}
// works for `pixel&` and for proxy references (planar_pixel_reference, bit_aligned_pixel_reference) held by value
template <class Ref> inline void tweak_pixel(Ref const& r, int channel, int which) { gil::static_for_each(r, TweakFn{channel, which, 0}); }
template <class Ref> inline void tweak_pixel(Ref& r, int channel, int which) { gil::static_for_each(r, TweakFn{channel, which, 0}); }

template <class View> inline void init_pixels(View const& v, uint32_t salt)
{
    using P = typename View::value_type;
    uint32_t k = 0;
    for (std::ptrdiff_t y = 0; y < v.height(); ++y)
        for (std::ptrdiff_t x = 0; x < v.width(); ++x) v(x, y) = gen_pixel<P>(k++, salt);
}

// ---------------------------------------------------------------- families
// Every family: view_t, mut (the same family with a mutable view, used to prepare contents of const sources),
// tag(), nkinds(), kind_name(k), offsets(k) (0: none, 1: the kind uses the y0 offset, 2: (x0,y0)),
// bytes(k,w,h,x0,y0) = exact canvas size, make(k,base,w,h,x0,y0) = a w x h view inside the canvas.
// names used in the stable case ids (a TU adds specialisations for its own packed / bit-aligned types)
template <class T> struct Name;
template <> struct Name<gil::rgb8_pixel_t>   { static const char* get() { return "rgb8"; } };
template <> struct Name<gil::bgr8_pixel_t>   { static const char* get() { return "bgr8"; } };
template <> struct Name<gil::gray8_pixel_t>  { static const char* get() { return "gray8"; } };
template <> struct Name<gil::rgb16_pixel_t>  { static const char* get() { return "rgb16"; } };
template <> struct Name<gil::rgba8_pixel_t>  { static const char* get() { return "rgba8"; } };
template <> struct Name<gil::rgb32f_pixel_t> { static const char* get() { return "rgb32f"; } };
template <> struct Name<uint8_t>             { static const char* get() { return "rgb8"; } };     // planar rgb of this channel
template <> struct Name<uint16_t>            { static const char* get() { return "rgb16"; } };
template <> struct Name<gil::float32_t>      { static const char* get() { return "rgb32f"; } };

static const int PAD = 4;   // row padding in bytes of the "padded" kinds (not a multiple of 3-/6-/12-byte pixels)

template <class Pixel, bool Const = false>
struct FamI   // interleaved / packed pixels addressed by a raw pixel pointer
{
    using mut = FamI<Pixel, false>;
    using ptr_t = typename std::conditional<Const, Pixel const*, Pixel*>::type;
    using view_t = typename gil::type_from_x_iterator<ptr_t>::view_t;
    static const bool bit_level = false;
    static const char* tag() { static std::string s = std::string(Name<Pixel>::get()) + (Const ? ".Ic" : ".I"); return s.c_str(); }
    static int nkinds() { return 4; }
    static const char* kind_name(int k) { static const char* n[] = {"contig", "padded", "sub", "rows"}; return n[k]; }
    static int offsets(int k) { return k == 2 ? 2 : k == 3 ? 1 : 0; }
    static void geom(int k, int w, int h, int x0, int y0, int& cw, int& ch, size_t& rb)
    {
        const size_t ps = sizeof(Pixel);
        if (k == 0) { cw = w; ch = h; rb = w * ps; }
        else if (k == 1) { cw = w; ch = h; rb = w * ps + PAD; }
        else if (k == 2) { cw = x0 + w + 1; ch = y0 + h + 1; rb = cw * ps; }
        else { cw = w; ch = y0 + h + 1; rb = cw * ps; }          // full-width rows y0..y0+h of a taller canvas
    }
    static size_t bytes(int k, int w, int h, int x0, int y0) { int cw, ch; size_t rb; geom(k, w, h, x0, y0, cw, ch, rb); return rb * size_t(ch); }
    static view_t make(int k, u8* base, int w, int h, int x0, int y0)
    {
        int cw, ch; size_t rb; geom(k, w, h, x0, y0, cw, ch, rb);
        view_t canvas = gil::interleaved_view(cw, ch, (ptr_t)base, rb);
        if (k == 2) return gil::subimage_view(canvas, x0, y0, w, h);
        if (k == 3) return gil::subimage_view(canvas, 0, y0, w, h);
        return canvas;
    }
};

template <class Chan, bool Const = false>
struct FamP   // planar rgb
{
    using mut = FamP<Chan, false>;
    using cptr_t = typename std::conditional<Const, Chan const*, Chan*>::type;
    using view_t = typename gil::type_from_x_iterator<gil::planar_pixel_iterator<cptr_t, gil::rgb_t>>::view_t;
    static const bool bit_level = false;
    static const char* tag() { static std::string s = std::string(Name<Chan>::get()) + (Const ? ".Pc" : ".P"); return s.c_str(); }
    static int nkinds() { return 3; }
    static const char* kind_name(int k) { static const char* n[] = {"contig", "padded", "sub"}; return n[k]; }
    static int offsets(int k) { return k == 2 ? 2 : 0; }
    static void geom(int k, int w, int h, int x0, int y0, int& cw, int& ch, size_t& rb, size_t& plane)
    {
        const size_t cs = sizeof(Chan);
        if (k == 0) { cw = w; ch = h; rb = w * cs; plane = rb * ch; }
        else if (k == 1) { cw = w; ch = h; rb = w * cs + PAD; plane = rb * ch + PAD; }   // + a gap between the planes
        else { cw = x0 + w + 1; ch = y0 + h + 1; rb = cw * cs; plane = rb * ch; }
    }
    static size_t bytes(int k, int w, int h, int x0, int y0) { int cw, ch; size_t rb, pl; geom(k, w, h, x0, y0, cw, ch, rb, pl); return 3 * pl; }
    static view_t make(int k, u8* base, int w, int h, int x0, int y0)
    {
        int cw, ch; size_t rb, pl; geom(k, w, h, x0, y0, cw, ch, rb, pl);
        // planes deliberately not in r,g,b address order: g, b, r
        view_t canvas = gil::planar_rgb_view(cw, ch, (cptr_t)(base + 2 * pl), (cptr_t)(base), (cptr_t)(base + pl), rb);
        if (k == 2) return gil::subimage_view(canvas, x0, y0, w, h);
        return canvas;
    }
};

template <class Base>
struct FamX   // views with a run-time x step: flipped_left_right and subsampled(2,1) of a Base canvas
{
    using mut = FamX<typename Base::mut>;
    using view_t = typename gil::dynamic_x_step_type<typename Base::view_t>::type;
    static const bool bit_level = false;
    static const char* tag() { static std::string s = std::string("X") + Base::tag(); return s.c_str(); }
    static int nkinds() { return 4; }
    static const char* kind_name(int k) { static const char* n[] = {"flipLR", "flipLR-padded", "sub2x-even", "sub2x-odd"}; return n[k]; }
    static int offsets(int) { return 0; }
    static int canvas_w(int k, int w) { return k < 2 ? w : (k == 2 ? 2 * w : (w ? 2 * w - 1 : 0)); }
    static size_t bytes(int k, int w, int h, int, int) { return Base::bytes(k == 1 ? 1 : 0, canvas_w(k, w), h, 0, 0); }
    static view_t make(int k, u8* base, int w, int h, int, int)
    {
        typename Base::view_t c = Base::make(k == 1 ? 1 : 0, base, canvas_w(k, w), h, 0, 0);
        if (k < 2) return gil::flipped_left_right_view(c);
        return gil::subsampled_view(c, 2, 1);
    }
};

template <class Base>
struct FamT   // transposed view of an h x w Base canvas
{
    using mut = FamT<typename Base::mut>;
    using view_t = typename gil::dynamic_xy_step_transposed_type<typename Base::view_t>::type;
    static const bool bit_level = false;
    static const char* tag() { static std::string s = std::string("T") + Base::tag(); return s.c_str(); }
    static int nkinds() { return 2; }
    static const char* kind_name(int k) { static const char* n[] = {"transposed", "transposed-padded"}; return n[k]; }
    static int offsets(int) { return 0; }
    static size_t bytes(int k, int w, int h, int, int) { return Base::bytes(k, h, w, 0, 0); }
    static view_t make(int k, u8* base, int w, int h, int, int) { return gil::transposed_view(Base::make(k, base, h, w, 0, 0)); }
};

template <class Image>
struct FamB   // bit-aligned pixels; memory unit = bit
{
    using mut = FamB<Image>;
    using view_t = typename Image::view_t;
    using x_iterator = typename view_t::x_iterator;
    static const bool bit_level = true;
    static const char* tag() { static std::string s = std::string(Name<Image>::get()) + ".B"; return s.c_str(); }
    static int pixbits() { return int(gil::memunit_step(x_iterator())); }
    // contig: row stride = w*pixbits (1-D traversable, rows start at any bit); bytealigned: rows start on bytes
    // (the organisation image<> allocates); sub: interior sub-view of a byte-aligned canvas starting at pixel
    // (x0,y0) -> non-byte-aligned first pixel; rows: rows y0.. of a contig canvas (1-D traversable and starting
    // at bit y0*w*pixbits)
    static int nkinds() { return 4; }
    static const char* kind_name(int k) { static const char* n[] = {"contig", "bytealigned", "sub", "rows"}; return n[k]; }
    static int offsets(int k) { return k == 2 ? 2 : k == 3 ? 1 : 0; }
    static void geom(int k, int w, int h, int x0, int y0, int& cw, int& ch, size_t& rowbits)
    {
        const int pb = pixbits();
        if (k == 0) { cw = w; ch = h; rowbits = size_t(w) * pb; }
        else if (k == 1) { cw = w; ch = h; rowbits = ((size_t(w) * pb + 7) / 8) * 8; }
        else if (k == 2) { cw = x0 + w + 1; ch = y0 + h + 1; rowbits = ((size_t(cw) * pb + 7) / 8) * 8; }
        else { cw = w; ch = y0 + h + 1; rowbits = size_t(w) * pb; }
    }
    static size_t bytes(int k, int w, int h, int x0, int y0) { int cw, ch; size_t rb; geom(k, w, h, x0, y0, cw, ch, rb); return (rb * size_t(ch) + 7) / 8; }
    static view_t make(int k, u8* base, int w, int h, int x0, int y0)
    {
        int cw, ch; size_t rb; geom(k, w, h, x0, y0, cw, ch, rb);
        view_t canvas(cw, ch, typename view_t::locator(x_iterator(base, 0), std::ptrdiff_t(rb)));
        if (k == 2) return gil::subimage_view(canvas, x0, y0, w, h);
        if (k == 3) return gil::subimage_view(canvas, 0, y0, w, h);
        return canvas;
    }
};

// ---------------------------------------------------------------- static traits used for the dispatch witnesses
template <class It> struct is_raw_pixel_ptr : std::false_type {};
template <class T, class L> struct is_raw_pixel_ptr<gil::pixel<T, L>*> : std::true_type {};
template <class T, class L> struct is_raw_pixel_ptr<gil::pixel<T, L> const*> : std::true_type {};
template <class It> struct is_planar_it : std::false_type {};
template <class IC, class CS> struct is_planar_it<gil::planar_pixel_iterator<IC, CS>> : std::true_type {};
template <class It> struct is_bit_it : std::false_type {};
template <class R> struct is_bit_it<gil::bit_aligned_pixel_iterator<R>> : std::true_type {};
template <class It> struct is_step_it : std::false_type {};
template <class I> struct is_step_it<gil::memory_based_step_iterator<I>> : std::true_type {};
template <class It> struct it_unconst { using type = It; };
template <class T> struct it_unconst<T const*> { using type = T*; };

template <class It> inline const char* it_class()
{
    return is_raw_pixel_ptr<It>::value ? "pixptr" : is_planar_it<It>::value ? "planar" : is_bit_it<It>::value ? "bit"
         : is_step_it<It>::value ? "step" : std::is_pointer<It>::value ? "packedptr" : "other";
}
// which std::copy overload copier_n's std::copy(src, src+n, dst) resolves to for x-iterators (XS, XD)
template <class XS, class XD> inline const char* copy_leaf()
{
    if (is_raw_pixel_ptr<XS>::value && is_raw_pixel_ptr<XD>::value && !std::is_const<typename std::remove_pointer<XD>::type>::value
        && std::is_same<typename it_unconst<XS>::type, XD>::value) return "memmove";
    if (is_planar_it<XS>::value && is_planar_it<XD>::value) return "perplane";
    if (is_bit_it<XS>::value || is_bit_it<XD>::value) return "bitaligned";
    return "generic";
}
// which equal_n_fn specialisation equal_n(i1,n,i2) resolves to for x-iterators
template <class X1, class X2> inline const char* equal_leaf()
{
    if (is_raw_pixel_ptr<X1>::value && std::is_same<X1, X2>::value) return "memcmp";
    if (is_planar_it<X1>::value && std::is_same<X1, X2>::value) return "memcmp-perplane";
    if (is_bit_it<X1>::value || is_bit_it<X2>::value) return "bitaligned";
    return "generic";
}

// ---------------------------------------------------------------- case plumbing
struct Unit   // one static family pair; caps failure spam per shardable unit (kinds x shape), so the set of
{             // reported (sig,id) pairs does not depend on the sharding
    vh::Ctx& ctx; std::string name; long fails = 0;
    void begin() { fails = 0; }
    bool capped() const { return fails >= 3; }
    void fail(std::string const& id, std::string const& sig, std::string const& detail) { ++fails; ctx.fail(id, sig, detail); }
};

template <class F> inline std::string kind_id(int k, int x0, int y0)
{
    vh::S s; s << F::tag() << ":" << F::kind_name(k);
    if (F::offsets(k)) s << "@" << x0 << "," << y0;
    return s;
}

// bits (bit_level) or bytes of a canvas that belong to the pixels of view kind k — from two extreme fills
template <class F> inline Bytes pixel_mask(int k, int w, int h, int x0, int y0)
{
    size_t n = F::bytes(k, w, h, x0, y0);
    Bytes a(n + 1, 0), b(n + 1, 0);
    auto va = F::mut::make(k, a.data(), w, h, x0, y0); auto vb = F::mut::make(k, b.data(), w, h, x0, y0);
    for (int y = 0; y < h; ++y) for (int x = 0; x < w; ++x)
    { gil::static_for_each(va(x, y), ExtremeFn{false}); gil::static_for_each(vb(x, y), ExtremeFn{true}); }
    Bytes m(n);
    for (size_t i = 0; i < n; ++i) m[i] = F::bit_level ? u8(a[i] ^ b[i]) : u8(a[i] != b[i] ? 0xFF : 0);
    return m;
}

// A canvas with its model. `real` is exactly sized and guarded; `model` is the byte copy the loop runs on.
template <class F> struct Canvas
{
    using view_t = typename F::view_t;
    int k, w, h, x0, y0;
    vh::GuardBuf real;
    Bytes model;
    Canvas(int k_, int w_, int h_, int x0_, int y0_, unsigned salt, bool inv, bool init)
        : k(k_), w(w_), h(h_), x0(x0_), y0(y0_), real(F::bytes(k_, w_, h_, x0_, y0_))
    {
        fill_pattern(real.data(), real.size(), salt, inv);
        if (init) init_pixels(wv(), salt * 31u + 5u);
        snapshot();
    }
    void snapshot() { model.assign(real.data(), real.data() + real.size()); if (model.empty()) model.reserve(1); }
    view_t rv() { return F::make(k, real.data(), w, h, x0, y0); }
    typename F::mut::view_t wv() { return F::mut::make(k, real.data(), w, h, x0, y0); }   // writable view of the real canvas (test set-up only)
    view_t mv() { return F::make(k, model.data(), w, h, x0, y0); }
    // compare all bytes of the real canvas with the model; on a difference classify it by the view's pixel mask
    bool check(Unit& u, std::string const& id, const char* what)
    {
        bool ok = true;
        size_t n = real.size();
        if (n && std::memcmp(real.data(), model.data(), n) != 0)
        {
            ok = false;
            Bytes m = pixel_mask<F>(k, w, h, x0, y0);
            size_t first_out = n, first_in = n;
            for (size_t i = 0; i < n; ++i)
            {
                u8 d = u8(real.data()[i] ^ model[i]);
                if (!d) continue;
                if ((d & u8(~m[i])) && first_out == n) first_out = i;
                if ((d & m[i]) && first_in == n) first_in = i;
            }
            if (first_out != n)
                u.fail(id, std::string(what) + ":byte-outside-view-modified",
                       vh::S() << "canvas byte " << first_out << " of " << n << ": real=" << unsigned(real.data()[first_out]) << " loop=" << unsigned(model[first_out])
                               << " pixelmask=" << unsigned(m[first_out]));
            if (first_in != n)
                u.fail(id, std::string(what) + ":result-differs-from-loop",
                       vh::S() << "canvas byte " << first_in << " of " << n << ": real=" << unsigned(real.data()[first_in]) << " loop=" << unsigned(model[first_in]));
        }
        if (!real.intact()) { ok = false; u.fail(id, std::string(what) + ":write-outside-canvas", "canary around the exactly-sized canvas changed"); }
        return ok;
    }
};

// the source of a binary algorithm must come out unchanged (the obvious loop does not write to it)
template <class F> inline void check_source(Unit& u, Canvas<F>& c, std::string const& id, const char* what)
{
    if ((c.real.size() && std::memcmp(c.real.data(), c.model.data(), c.real.size()) != 0) || !c.real.intact())
        u.fail(id, std::string(what) + ":source-modified", "bytes of the source canvas changed");
}

// enumerate the offsets of a kind
template <class F, class Fn> inline void for_offsets(int k, int X0, Fn fn)
{
    if (!F::offsets(k)) { fn(0, 0); return; }
    for (int y0 = 0; y0 < X0; ++y0) for (int x0 = 0; x0 < (F::offsets(k) == 2 ? X0 : 1); ++x0) fn(x0, y0);
}

// ---------------------------------------------------------------- functors handed to the GIL algorithms
// All state lives behind a pointer (GIL/STL may copy functors freely, e.g. std::generate per row), plus a
// by-value call counter used only where the algorithm returns the functor.
struct Trace { std::vector<uint64_t> seen; uint32_t k = 0; };

template <class DPix> struct ForEachFn          // for_each_pixel: reads the pixel, then overwrites it with gen(k)
{
    Trace* t; long calls;
    template <class Ref> void operator()(Ref&& p)
    { t->seen.push_back(hash_pixel(p)); p = gen_pixel<DPix>(t->k++, 77u); ++calls; }
};
template <class DPix> struct ForEachPosFn       // for_each_pixel_position: gets a locator
{
    Trace* t; long calls;
    template <class Loc> void operator()(Loc& loc)
    { t->seen.push_back(hash_pixel(*loc)); *loc = gen_pixel<DPix>(t->k++, 78u); ++calls; }
};
template <class DPix> struct GenerateFn
{
    Trace* t;
    DPix operator()() { return gen_pixel<DPix>(t->k++, 79u); }
};
template <class DPix> struct CountingGenerator   // the canonical stateful generator: state held BY VALUE (like a mutable lambda)
{
    uint32_t k;
    DPix operator()() { return gen_pixel<DPix>(k++, 84u); }
};
template <class DPix> struct Transform1Fn
{
    Trace* t; long calls;
    template <class Ref> DPix operator()(Ref const& s)
    { uint64_t hs = hash_pixel(s); t->seen.push_back(hs); ++calls; return gen_pixel<DPix>(uint32_t(hs) ^ (t->k++ * 2246822519u), 80u); }
};
template <class DPix> struct Transform2Fn
{
    Trace* t; long calls;
    template <class R1, class R2> DPix operator()(R1 const& a, R2 const& b)
    {
        uint64_t ha = hash_pixel(a), hb = hash_pixel(b); t->seen.push_back(ha); t->seen.push_back(hb); ++calls;
        return gen_pixel<DPix>(uint32_t(ha) ^ uint32_t(hb * 3u) ^ (t->k++ * 2246822519u), 81u);
    }
};
template <class DPix> struct TransformPos1Fn
{
    Trace* t; long calls;
    template <class Loc> DPix operator()(Loc const& l)
    { uint64_t hs = hash_pixel(*l); t->seen.push_back(hs); ++calls; return gen_pixel<DPix>(uint32_t(hs) ^ (t->k++ * 2246822519u), 82u); }
};
template <class DPix> struct TransformPos2Fn
{
    Trace* t; long calls;
    template <class L1, class L2> DPix operator()(L1 const& a, L2 const& b)
    {
        uint64_t ha = hash_pixel(*a), hb = hash_pixel(*b); t->seen.push_back(ha); t->seen.push_back(hb); ++calls;
        return gen_pixel<DPix>(uint32_t(ha) ^ uint32_t(hb * 3u) ^ (t->k++ * 2246822519u), 83u);
    }
};

inline void check_trace(Unit& u, std::string const& id, const char* what, Trace const& real, Trace const& loop, long returned_calls, long expect_calls)
{
    if (real.seen != loop.seen)
    {
        size_t i = 0; while (i < real.seen.size() && i < loop.seen.size() && real.seen[i] == loop.seen[i]) ++i;
        u.fail(id, std::string(what) + ":call-sequence-not-row-major", vh::S() << "functor saw " << real.seen.size() << " arguments, loop " << loop.seen.size() << "; first difference at call argument " << i);
    }
    if (returned_calls >= 0 && returned_calls != expect_calls)
        u.fail(id, std::string(what) + ":returned-functor-state", vh::S() << "returned functor counted " << returned_calls << " calls, loop " << expect_calls);
}

// a second, compatible-but-different pixel type for the fill value (rgb8 views are also filled with a bgr8 value)
template <class P> struct alt_pixel { using type = P; };
template <> struct alt_pixel<gil::rgb8_pixel_t> { using type = gil::bgr8_pixel_t; };

// fill_pixels on every family, including planar views with a step x-iterator (flipped_left_right / subsampled /
// transposed planar views): in the snapshot that instantiation did not compile (fill_aux was tagged with
// is_planar<View> and handed a step iterator to static_for_each); fixed in /repo by 140feb5.
template <class F> struct FillCase
{
    using V = typename F::view_t; using P = typename V::value_type;
    static bool run(vh::Ctx& ctx, Unit& u, std::string const& base, int k, int w, int h, int x0, int y0, int inv)
    {
        // the second value is of a compatible pixel type with another layout, where one exists
        {
            Canvas<F> c(k, w, h, x0, y0, 11, inv != 0, true);
            P value = gen_pixel<P>(1000, 3u);
            V mv = c.mv(); for (int y = 0; y < h; ++y) for (int x = 0; x < w; ++x) mv(x, y) = value;
            gil::fill_pixels(c.rv(), value);
            std::string id = "fill/" + base + "/v0";
            c.check(u, id, "fill_pixels"); ctx.san_take_lazy([&] { return id; });
            ++ctx.evaluations; if (w && h) ++ctx.nontrivial;
        }
        {
            using AP = typename alt_pixel<P>::type;
            Canvas<F> c(k, w, h, x0, y0, 15, inv != 0, true);
            AP value = gen_pixel<AP>(1001, 0xFFFFu);
            V mv = c.mv(); for (int y = 0; y < h; ++y) for (int x = 0; x < w; ++x) mv(x, y) = value;
            gil::fill_pixels(c.rv(), value);
            std::string id = "fill/" + base + "/v1";
            c.check(u, id, "fill_pixels"); ctx.san_take_lazy([&] { return id; });
            ++ctx.evaluations; if (w && h) ++ctx.nontrivial;
        }
        return true;
    }
};
// ---------------------------------------------------------------- destination-only algorithms
// fill_pixels, generate_pixels, for_each_pixel, for_each_pixel_position on every kind/shape/offset of family F
template <class F> void run_dst(vh::Ctx& ctx, int N, int X0)
{
    using V = typename F::view_t; using P = typename V::value_type;
    using XI = typename V::x_iterator;
    Unit u{ctx, std::string("dst/") + F::tag()};
    for (int k = 0; k < F::nkinds(); ++k)
        for (int h = 0; h <= N; ++h) for (int w = 0; w <= N; ++w)
        {
            if (!ctx.take()) continue;
            if (ctx.timed_out()) return;
            u.begin();
            for_offsets<F>(k, X0, [&](int x0, int y0) {
                for (int inv = 0; inv < 2 && !u.capped(); ++inv)
                {
                    std::string base = vh::S() << kind_id<F>(k, x0, y0) << "/" << w << "x" << h << "/bg" << inv;
                    ctx.cur = u.name + "/" + base;
                    bool trav = false;
                    // ---- fill_pixels with two different values (see FillCase)
                    {
                        Canvas<F> c0(k, w, h, x0, y0, 1, false, false); trav = c0.rv().is_1d_traversable();
                        FillCase<F>::run(ctx, u, base, k, w, h, x0, y0, inv);
                    }
                    ++ctx.witness[std::string("fill:") + (trav ? "1d:" : "rows:") + it_class<XI>()];
                    // ---- generate_pixels
                    {
                        Canvas<F> c(k, w, h, x0, y0, 12, inv != 0, true);
                        Trace tl, tr;
                        { GenerateFn<P> g{&tl}; V mv = c.mv(); for (int y = 0; y < h; ++y) for (int x = 0; x < w; ++x) mv(x, y) = g(); }
                        gil::generate_pixels(c.rv(), GenerateFn<P>{&tr});
                        std::string id = "generate/" + base;
                        c.check(u, id, "generate_pixels");
                        if (tr.k != tl.k) u.fail(id, "generate_pixels:call-count", vh::S() << tr.k << " calls, loop " << tl.k);
                        ctx.san_take_lazy([&] { return id; });
                        ++ctx.evaluations; if (w && h) ++ctx.nontrivial;
                        ++ctx.witness[std::string("generate:") + (trav ? "1d" : "rows")];
                    }
                    // ---- generate_pixels with a generator that keeps its state by value (std::generate's canonical use,
                    // e.g. a counting mutable lambda): one case per (kind, shape), the obvious loop uses ONE generator object
                    if (inv == 0 && x0 == 0 && y0 == 0)
                    {
                        Canvas<F> c(k, w, h, x0, y0, 16, false, true);
                        { CountingGenerator<P> g{0}; V mv = c.mv(); for (int y = 0; y < h; ++y) for (int x = 0; x < w; ++x) mv(x, y) = g(); }
                        gil::generate_pixels(c.rv(), CountingGenerator<P>{0});
                        std::string id = vh::S() << "generate_byvalue/" << kind_id<F>(k, x0, y0) << "/" << w << "x" << h;
                        c.check(u, id, "generate_pixels.byvalue");
                        ctx.san_take_lazy([&] { return id; });
                        ++ctx.evaluations; if (w && h > 1) ++ctx.nontrivial;
                        ++ctx.witness[std::string("generate_byvalue:") + (trav ? "1d" : "rows")];
                    }
                    // ---- for_each_pixel
                    {
                        Canvas<F> c(k, w, h, x0, y0, 13, inv != 0, true);
                        Trace tl, tr;
                        { ForEachFn<P> f{&tl, 0}; V mv = c.mv(); for (int y = 0; y < h; ++y) for (int x = 0; x < w; ++x) f(mv(x, y)); }
                        ForEachFn<P> ret = gil::for_each_pixel(c.rv(), ForEachFn<P>{&tr, 0});
                        std::string id = "for_each/" + base;
                        c.check(u, id, "for_each_pixel");
                        check_trace(u, id, "for_each_pixel", tr, tl, ret.calls, long(w) * h);
                        ctx.san_take_lazy([&] { return id; });
                        ++ctx.evaluations; if (w && h) ++ctx.nontrivial;
                        ++ctx.witness[std::string("for_each:") + (trav ? "1d" : "rows")];
                    }
                    // ---- for_each_pixel_position
                    {
                        Canvas<F> c(k, w, h, x0, y0, 14, inv != 0, true);
                        Trace tl, tr;
                        { ForEachPosFn<P> f{&tl, 0}; V mv = c.mv();
                          for (int y = 0; y < h; ++y) for (int x = 0; x < w; ++x) { typename V::xy_locator l = mv.xy_at(x, y); f(l); } }
                        ForEachPosFn<P> ret = gil::for_each_pixel_position(c.rv(), ForEachPosFn<P>{&tr, 0});
                        std::string id = "for_each_position/" + base;
                        c.check(u, id, "for_each_pixel_position");
                        check_trace(u, id, "for_each_pixel_position", tr, tl, ret.calls, long(w) * h);
                        ctx.san_take_lazy([&] { return id; });
                        ++ctx.evaluations; if (w && h) ++ctx.nontrivial;
                    }
                    if (w == 2 && h == 2 && inv == 0) ctx.sample(u.name + " " + base + ": fill x2, generate, for_each, for_each_position == loop, all canvas bytes equal");
                }
            });
        }
}

// ---------------------------------------------------------------- source -> destination algorithms
// copy_pixels, copy_and_convert_pixels, transform_pixels (1 and 2 sources), transform_pixel_positions (1 and 2)
// FS2 is the family of the second source of the two-source transforms.
template <bool Compatible> struct LoopCopy
{
    template <class SV, class DV> static void run(SV const& s, DV const& d)
    { for (std::ptrdiff_t y = 0; y < d.height(); ++y) for (std::ptrdiff_t x = 0; x < d.width(); ++x) d(x, y) = s(x, y); }
};
template <> struct LoopCopy<false>
{
    template <class SV, class DV> static void run(SV const& s, DV const& d)
    {
        for (std::ptrdiff_t y = 0; y < d.height(); ++y) for (std::ptrdiff_t x = 0; x < d.width(); ++x)
        { typename DV::value_type t; gil::color_convert(s(x, y), t); d(x, y) = t; }
    }
};

template <class FS, class FD, class FS2, bool WithTransforms = true>
struct PairRunner
{
    using SV = typename FS::view_t; using DV = typename FD::view_t; using S2V = typename FS2::view_t;
    using DP = typename DV::value_type;
    static const bool compatible = gil::views_are_compatible<SV, DV>::value;

    static const char* copy_branch(bool st, bool dt)
    {
        static std::string r;
        r = std::string("copy:") + (st ? "1d" : "2d") + (dt ? "1d" : "2d") + ":" + copy_leaf<typename SV::x_iterator, typename DV::x_iterator>();
        return r.c_str();
    }

    template <class Cnv2>
    static void transforms(vh::Ctx& ctx, Unit& u, std::string const& base, Canvas<FS>& s, Cnv2& s2, int kd, int w, int h, int dx0, int dy0, int inv, std::true_type)
    {
        {   // transform_pixels, one source
            Canvas<FD> d(kd, w, h, dx0, dy0, 24, inv != 0, true);
            Trace tl, tr;
            { Transform1Fn<DP> f{&tl, 0}; SV sv = s.rv(); DV mv = d.mv(); for (int y = 0; y < h; ++y) for (int x = 0; x < w; ++x) mv(x, y) = f(sv(x, y)); }
            Transform1Fn<DP> ret = gil::transform_pixels(s.rv(), d.rv(), Transform1Fn<DP>{&tr, 0});
            std::string id = "transform1/" + base;
            d.check(u, id, "transform_pixels"); check_source(u, s, id, "transform_pixels");
            check_trace(u, id, "transform_pixels", tr, tl, ret.calls, long(w) * h);
            ctx.san_take_lazy([&] { return id; });
            ++ctx.evaluations; if (w && h) ++ctx.nontrivial;
        }
        {   // transform_pixel_positions, one source
            Canvas<FD> d(kd, w, h, dx0, dy0, 25, inv != 0, true);
            Trace tl, tr;
            { TransformPos1Fn<DP> f{&tl, 0}; SV sv = s.rv(); DV mv = d.mv();
              for (int y = 0; y < h; ++y) for (int x = 0; x < w; ++x) { typename SV::xy_locator l = sv.xy_at(x, y); mv(x, y) = f(l); } }
            TransformPos1Fn<DP> ret = gil::transform_pixel_positions(s.rv(), d.rv(), TransformPos1Fn<DP>{&tr, 0});
            std::string id = "transform_pos1/" + base;
            d.check(u, id, "transform_pixel_positions"); check_source(u, s, id, "transform_pixel_positions");
            check_trace(u, id, "transform_pixel_positions", tr, tl, ret.calls, long(w) * h);
            ctx.san_take_lazy([&] { return id; });
            ++ctx.evaluations; if (w && h) ++ctx.nontrivial;
        }
        {   // transform_pixels, two sources
            Canvas<FD> d(kd, w, h, dx0, dy0, 26, inv != 0, true);
            Trace tl, tr;
            { Transform2Fn<DP> f{&tl, 0}; SV sv = s.rv(); S2V s2v = s2.rv(); DV mv = d.mv();
              for (int y = 0; y < h; ++y) for (int x = 0; x < w; ++x) mv(x, y) = f(sv(x, y), s2v(x, y)); }
            Transform2Fn<DP> ret = gil::transform_pixels(s.rv(), s2.rv(), d.rv(), Transform2Fn<DP>{&tr, 0});
            std::string id = "transform2/" + base;
            d.check(u, id, "transform_pixels2"); check_source(u, s, id, "transform_pixels2"); check_source(u, s2, id, "transform_pixels2");
            check_trace(u, id, "transform_pixels2", tr, tl, ret.calls, long(w) * h);
            ctx.san_take_lazy([&] { return id; });
            ++ctx.evaluations; if (w && h) ++ctx.nontrivial;
        }
        {   // transform_pixel_positions, two sources
            Canvas<FD> d(kd, w, h, dx0, dy0, 27, inv != 0, true);
            Trace tl, tr;
            { TransformPos2Fn<DP> f{&tl, 0}; SV sv = s.rv(); S2V s2v = s2.rv(); DV mv = d.mv();
              for (int y = 0; y < h; ++y) for (int x = 0; x < w; ++x)
              { typename SV::xy_locator l1 = sv.xy_at(x, y); typename S2V::xy_locator l2 = s2v.xy_at(x, y); mv(x, y) = f(l1, l2); } }
            TransformPos2Fn<DP> ret = gil::transform_pixel_positions(s.rv(), s2.rv(), d.rv(), TransformPos2Fn<DP>{&tr, 0});
            std::string id = "transform_pos2/" + base;
            d.check(u, id, "transform_pixel_positions2"); check_source(u, s, id, "transform_pixel_positions2"); check_source(u, s2, id, "transform_pixel_positions2");
            check_trace(u, id, "transform_pixel_positions2", tr, tl, ret.calls, long(w) * h);
            ctx.san_take_lazy([&] { return id; });
            ++ctx.evaluations; if (w && h) ++ctx.nontrivial;
        }
    }
    template <class Cnv2>
    static void transforms(vh::Ctx&, Unit&, std::string const&, Canvas<FS>&, Cnv2&, int, int, int, int, int, int, std::false_type) {}

    static void run(vh::Ctx& ctx, int N, int X0)
    {
        Unit u{ctx, std::string("pair/") + FS::tag() + ">" + FD::tag()};
        for (int ks = 0; ks < FS::nkinds(); ++ks) for (int kd = 0; kd < FD::nkinds(); ++kd)
            for (int h = 0; h <= N; ++h) for (int w = 0; w <= N; ++w)
            {
                if (!ctx.take()) continue;
                if (ctx.timed_out()) return;
                u.begin();
                // the second source cycles through the kinds of FS2 (offset fixed at (1,1) where it has one)
                int k2 = (ks + kd + w + h) % FS2::nkinds();
                for_offsets<FS>(ks, X0, [&](int sx0, int sy0) {
                    for_offsets<FD>(kd, X0, [&](int dx0, int dy0) {
                        for (int inv = 0; inv < 2 && !u.capped(); ++inv)
                        {
                            std::string base = vh::S() << u.name.substr(5) << "/" << kind_id<FS>(ks, sx0, sy0) << ">" << kind_id<FD>(kd, dx0, dy0) << "/" << w << "x" << h << "/bg" << inv;
                            ctx.cur = base;
                            Canvas<FS> s(ks, w, h, sx0, sy0, 21, inv == 0, true);
                            Canvas<FS2> s2(k2, w, h, 1, 1, 22, inv != 0, true);
                            bool st, dt;
                            {   // copy_pixels (only between compatible views: it is plain assignment)
                                Canvas<FD> d(kd, w, h, dx0, dy0, 23, inv != 0, true);
                                st = s.rv().is_1d_traversable(); dt = d.rv().is_1d_traversable();
                                copy_case(ctx, u, base, s, d, std::integral_constant<bool, compatible>());
                            }
                            ++ctx.witness[copy_branch(st, dt)];
                            {   // copy_and_convert_pixels
                                Canvas<FD> d(kd, w, h, dx0, dy0, 28, inv != 0, true);
                                LoopCopy<compatible>::run(s.rv(), d.mv());
                                gil::copy_and_convert_pixels(s.rv(), d.rv());
                                std::string id = "copy_and_convert/" + base;
                                d.check(u, id, "copy_and_convert_pixels"); check_source(u, s, id, "copy_and_convert_pixels");
                                ctx.san_take_lazy([&] { return id; });
                                ++ctx.evaluations; if (w && h) ++ctx.nontrivial;
                                ++ctx.witness[compatible ? "copy_and_convert:compatible" : "copy_and_convert:converting"];
                            }
                            transforms(ctx, u, base, s, s2, kd, w, h, dx0, dy0, inv, std::integral_constant<bool, WithTransforms>());
                            if (w == 3 && h == 2 && inv == 0 && sx0 == 0 && sy0 == 0 && dx0 == 0 && dy0 == 0)
                                ctx.sample(base + ": copy/copy_and_convert/transform x4 == loop on all canvas bytes; src 1-D traversable=" + (st ? "yes" : "no") + " dst=" + (dt ? "yes" : "no"));
                        }
                    });
                });
            }
    }
    static void copy_case(vh::Ctx& ctx, Unit& u, std::string const& base, Canvas<FS>& s, Canvas<FD>& d, std::true_type)
    {
        LoopCopy<true>::run(s.rv(), d.mv());
        gil::copy_pixels(s.rv(), d.rv());
        std::string id = "copy/" + base;
        d.check(u, id, "copy_pixels"); check_source(u, s, id, "copy_pixels");
        ctx.san_take_lazy([&] { return id; });
        ++ctx.evaluations; if (d.w && d.h) ++ctx.nontrivial;
    }
    static void copy_case(vh::Ctx&, Unit&, std::string const&, Canvas<FS>&, Canvas<FD>&, std::false_type) {}
};

// ---------------------------------------------------------------- equal_pixels
template <class VA, class VB> inline bool loop_equal(VA const& a, VB const& b)
{
    for (std::ptrdiff_t y = 0; y < a.height(); ++y) for (std::ptrdiff_t x = 0; x < a.width(); ++x)
        if (!(a(x, y) == b(x, y))) return false;
    return true;
}

template <class FA, class FB>
struct EqualRunner
{
    using VA = typename FA::view_t; using VB = typename FB::view_t;
    using PA = typename VA::value_type; using PB = typename VB::value_type;
    static const int NCH = gil::num_channels<PB>::value;
    static const bool is_float = is_float_chan<typename gil::kth_element_type<PB, 0>::type>::value
                              && is_float_chan<typename gil::kth_element_type<PA, 0>::type>::value;

    static std::string branch(bool at, bool bt)
    {
        return std::string("equal:") + (at ? "1d" : "2d") + (bt ? "1d" : "2d") + ":" + equal_leaf<typename VA::x_iterator, typename VB::x_iterator>();
    }
    static void expect(vh::Ctx& ctx, Unit& u, std::string const& id, VA const& a, VB const& b)
    {
        bool loop = loop_equal(a, b);
        tap().on = true;
        bool got = gil::equal_pixels(a, b);
        tap().on = false;
        ++ctx.evaluations;
        if (got != loop)
            u.fail(id, loop ? "equal_pixels:false-but-all-pixels-compare-equal" : "equal_pixels:true-but-a-pixel-differs",
                   vh::S() << "equal_pixels=" << got << " loop=" << loop);
        ctx.san_take_lazy([&] { return id; });
    }

    // float specials, +0 vs -0 (in range: -0.0f == 0.0f is the channel minimum) are part of the oracle;
    // NaN (outside the channel range [0,1]) is only counted
    static void float_specials(vh::Ctx& ctx, Unit& u, std::string const& base, Canvas<FA>& a, Canvas<FB>& b, std::true_type)
    {
        VA av = a.rv(); VB bv = b.rv();
        auto aw = a.wv(); auto bw = b.wv();
        for (int y = 0; y < a.h; ++y) for (int x = 0; x < a.w; ++x) for (int c = 0; c < NCH; ++c)
        {
            if (u.capped()) return;
            PA keepa = av(x, y); PB keepb = bv(x, y);
            gil::static_for_each(aw(x, y), SetChanBitsFn{c, 0.0f, 0});
            gil::static_for_each(bw(x, y), SetChanBitsFn{c, -0.0f, 0});
            std::string id = vh::S() << "equal/" << base << "/negzero@" << x << "," << y << "c" << c;
            expect(ctx, u, id, av, bv); ++ctx.nontrivial; ++ctx.witness["equal:negzero_cases"];
            // NaN: not an oracle (value outside the nominal channel range) — counted for the record
            gil::static_for_each(aw(x, y), SetChanBitsFn{c, std::nanf(""), 0});
            gil::static_for_each(bw(x, y), SetChanBitsFn{c, std::nanf(""), 0});
            bool loop = loop_equal(av, bv), got = gil::equal_pixels(av, bv);
            ++ctx.counters[got == loop ? "nan_same_as_loop(not an oracle)" : "nan_differs_from_loop(not an oracle)"];
            aw(x, y) = keepa; bw(x, y) = keepb;
        }
    }
    static void float_specials(vh::Ctx&, Unit&, std::string const&, Canvas<FA>&, Canvas<FB>&, std::false_type) {}

    static void run(vh::Ctx& ctx, int N, int X0)
    {
        Unit u{ctx, std::string("equal/") + FA::tag() + "=" + FB::tag()};
        for (int ka = 0; ka < FA::nkinds(); ++ka) for (int kb = 0; kb < FB::nkinds(); ++kb)
            for (int h = 0; h <= N; ++h) for (int w = 0; w <= N; ++w)
            {
                if (!ctx.take()) continue;
                if (ctx.timed_out()) return;
                u.begin();
                for_offsets<FA>(ka, X0, [&](int ax0, int ay0) {
                    for_offsets<FB>(kb, X0, [&](int bx0, int by0) {
                        if (u.capped()) return;
                        std::string base = vh::S() << u.name.substr(6) << "/" << kind_id<FA>(ka, ax0, ay0) << "=" << kind_id<FB>(kb, bx0, by0) << "/" << w << "x" << h;
                        ctx.cur = "equal/" + base;
                        // different backgrounds: padding / border / neighbouring bits differ between a and b
                        Canvas<FA> a(ka, w, h, ax0, ay0, 31, false, false);
                        Canvas<FB> b(kb, w, h, bx0, by0, 32, true, false);
                        VA av = a.rv(); VB bv = b.rv();
                        auto aw = a.wv(); auto bw = b.wv();
                        // same pixel values in both, through compatible assignment
                        init_pixels(aw, 33u);
                        LoopCopy<true>::run(av, bw);
                        a.snapshot(); b.snapshot();
                        bool at = av.is_1d_traversable(), bt = bv.is_1d_traversable();
                        long c0 = tap().calls, b0 = tap().bytes;
                        expect(ctx, u, "equal/" + base + "/same", av, bv);
                        if (w && h) ++ctx.nontrivial;
                        ++ctx.witness[branch(at, bt)];
                        if (tap().calls > c0) { ++ctx.witness["equal:memcmp-observed:" + branch(at, bt)]; ctx.counters["memcmp_bytes_observed"] += tap().bytes - b0; }
                        if (w && h && loop_equal(av, bv)) ++ctx.witness["equal:true_cases"];
                        // a single differing pixel at every position, in every channel, lowest and highest bit
                        for (int y = 0; y < h; ++y) for (int x = 0; x < w; ++x) for (int c = 0; c < NCH; ++c) for (int which = 0; which < 2; ++which)
                        {
                            PB keep = bv(x, y);
                            tweak_pixel(bw(x, y), c, which);
                            std::string id = vh::S() << "equal/" << base << "/diff@" << x << "," << y << "c" << c << (which ? "hi" : "lo");
                            expect(ctx, u, id, av, bv); ++ctx.nontrivial; ++ctx.witness["equal:single_difference_cases"];
                            bw(x, y) = keep;
                            if (u.capped()) return;
                        }
                        float_specials(ctx, u, base, a, b, std::integral_constant<bool, is_float>());
                        // equal_pixels must not write
                        check_source(u, a, "equal/" + base, "equal_pixels"); check_source(u, b, "equal/" + base, "equal_pixels");
                        if (w == 2 && h == 2 && ax0 == 0 && ay0 == 0 && bx0 == 0 && by0 == 0)
                            ctx.sample("equal " + base + ": same -> true; each of " + std::to_string(w * h * NCH * 2) + " single-channel differences -> false (" + branch(at, bt) + ")");
                    });
                });
            }
    }
};

// ---------------------------------------------------------------- image operator== / operator!=
// Images of equal dimensions; alignment 0 (rows contiguous) and 8 (padded rows -> not 1-D traversable); the raw
// allocation is scribbled with different patterns first, so padding differs between the two images.
template <class ImgA, class ImgB>
struct ImageEqRunner
{
    using PB = typename ImgB::value_type;
    static const int NCH = gil::num_channels<PB>::value;
    static void run(vh::Ctx& ctx, int N, const char* name)
    {
        Unit u{ctx, std::string("image_eq/") + name};
        const int aligns[] = {0, 8, 1};
        for (int ia = 0; ia < 3; ++ia) for (int ib = 0; ib < 3; ++ib)
            for (int h = 0; h <= N; ++h) for (int w = 0; w <= N; ++w)
            {
                if (!ctx.take()) continue;
                if (ctx.timed_out()) return;
                u.begin();
                std::string base = vh::S() << name << "/align" << aligns[ia] << "=align" << aligns[ib] << "/" << w << "x" << h;
                ctx.cur = "image_eq/" + base;
                ImgA a(w, h, aligns[ia]); ImgB b(w, h, aligns[ib]);
                if (a._memory) fill_pattern(a._memory, a._allocated_bytes, 41, false);
                if (b._memory) fill_pattern(b._memory, b._allocated_bytes, 42, true);
                init_pixels(gil::view(a), 43u);
                LoopCopy<true>::run(gil::const_view(a), gil::view(b));
                // (image<>(w,0) / (0,h) with alignment 0 reports dimensions 0x0, with alignment > 0 it reports w x 0:
                // images of different dimensions are different, whatever the pixels)
                bool same_dims = gil::const_view(a).dimensions() == gil::const_view(b).dimensions();
                if (!same_dims) ++ctx.counters["image_eq:dimensions_differ(empty image, alignment 0 vs >0)"];
                auto check = [&](std::string const& id) {
                    bool loop = same_dims && loop_equal(gil::const_view(a), gil::const_view(b));
                    bool eq = (a == b), ne = (a != b);
                    ++ctx.evaluations;
                    if (eq != loop) u.fail(id, loop ? "image==:false-but-all-pixels-compare-equal" : "image==:true-but-a-pixel-differs", vh::S() << "operator== gave " << eq << ", loop " << loop);
                    if (ne == eq) u.fail(id, "image!=:not-the-negation-of-==", "");
                    ctx.san_take_lazy([&] { return id; });
                };
                if (same_dims) LoopCopy<true>::run(gil::const_view(a), gil::view(b));
                check("image_eq/" + base + "/same");
                bool at = gil::const_view(a).is_1d_traversable(), bt = gil::const_view(b).is_1d_traversable();
                ++ctx.witness[std::string("image_eq:") + (at ? "1d" : "2d") + (bt ? "1d" : "2d")];
                for (int y = 0; y < h; ++y) for (int x = 0; x < w; ++x) for (int c = 0; c < NCH; ++c) for (int which = 0; which < 2 && !u.capped() && same_dims; ++which)
                {
                    PB keep = gil::view(b)(x, y);
                    tweak_pixel(gil::view(b)(x, y), c, which);
                    check(vh::S() << "image_eq/" << base << "/diff@" << x << "," << y << "c" << c << (which ? "hi" : "lo"));
                    ++ctx.nontrivial; ++ctx.witness["image_eq:single_difference_cases"];
                    gil::view(b)(x, y) = keep;
                }
                if (w == 2 && h == 2) ctx.sample("image_eq " + base + ": same -> ==; every single-channel difference -> !=");
            }
    }
};

} // namespace c04
