// c08_model.hpp — bit-string reference model of a byte buffer, pixel configurations and the background
// generators used by the C08 harnesses. Nothing in namespace c08::model calls GIL: a buffer is the bit
// string  bit i = (byte[i/8] >> (i%8)) & 1  (LSB first, little-endian host), channel k of a pixel that
// starts at bit p occupies bits [p + w0+..+w(k-1), .. + wk), least significant bit first — the layout
// GIL documents for packed_pixel ("the last bits will be unused") and bit_aligned_pixel_reference
// ("red = [2], green = [3,4], blue = [5,6,7]").
#pragma once
#include "vh.hpp"
#include <boost/gil.hpp>
#include <boost/mp11.hpp>
#include <cstdint>
#include <cstring>
#include <string>
#include <vector>

namespace c08 {
namespace gil = boost::gil;
namespace mp = boost::mp11;

namespace model {
using u128 = unsigned __int128;
// every buffer handed to these functions has >= 16 readable/writable bytes after the first byte touched
inline u128 ld(unsigned char const* p) { u128 x; std::memcpy(&x, p, 16); return x; }
inline void st(unsigned char* p, u128 x) { std::memcpy(p, &x, 16); }
inline u128 ones(int w) { return w >= 128 ? ~u128(0) : ((u128(1) << w) - 1); }
// value of bits [pos, pos+w), w <= 64
inline uint64_t get(unsigned char const* b, size_t pos, int w) { return uint64_t((ld(b + (pos >> 3)) >> (pos & 7)) & ones(w)); }
// set bits [pos, pos+w) to v, w <= 64
inline void set(unsigned char* b, size_t pos, int w, uint64_t v)
{
    unsigned char* p = b + (pos >> 3);
    const int s = int(pos & 7);
    const u128 m = ones(w) << s;
    st(p, (ld(p) & ~m) | ((u128(v) << s) & m));
}
// mark bits [pos, pos+w) in a mask buffer (any w)
inline void mark(unsigned char* m, size_t pos, size_t w)
{
    if (w <= 120) { unsigned char* p = m + (pos >> 3); st(p, ld(p) | (ones(int(w)) << (pos & 7))); return; }
    for (size_t i = pos; i < pos + w; ++i) m[i >> 3] |= (unsigned char)(1u << (i & 7));
}
// true when got and before agree on every bit that is not marked in mask
inline bool others_unchanged(unsigned char const* before, unsigned char const* got, unsigned char const* mask, size_t len)
{
    for (size_t i = 0; i < len; ++i) if ((before[i] ^ got[i]) & ~mask[i]) return false;
    return true;
}
inline std::string hex(unsigned char const* b, size_t n)
{
    static const char* d = "0123456789abcdef"; std::string s;
    for (size_t i = 0; i < n; ++i) { s += d[b[i] >> 4]; s += d[b[i] & 15]; }
    return s;
}
// deterministic byte stream (splitmix64) for "hashed" background patterns
inline uint64_t sm64(uint64_t& x) { uint64_t z = (x += 0x9e3779b97f4a7c15ull); z = (z ^ (z >> 30)) * 0xbf58476d1ce4e5b9ull; z = (z ^ (z >> 27)) * 0x94d049bb133111ebull; return z ^ (z >> 31); }
inline void fill_hashed(unsigned char* b, size_t n, uint64_t seed) { uint64_t x = seed; for (size_t i = 0; i < n; ++i) b[i] = (unsigned char)(sm64(x) >> 24); }
} // namespace model

template <int N> struct layout_of;
template <> struct layout_of<1> { using type = gil::gray_layout_t; };
template <> struct layout_of<2> { using type = gil::devicen_layout_t<2>; };
template <> struct layout_of<3> { using type = gil::rgb_layout_t; };
template <> struct layout_of<4> { using type = gil::rgba_layout_t; };

template <class BF> struct bf_name;
template <> struct bf_name<uint8_t> { static const char* s() { return "u8"; } };
template <> struct bf_name<uint16_t> { static const char* s() { return "u16"; } };
template <> struct bf_name<uint32_t> { static const char* s() { return "u32"; } };
template <> struct bf_name<uint64_t> { static const char* s() { return "u64"; } };

// a pixel configuration: bit-field carrier + channel widths
template <class BF, int... W> struct Cfg
{
    using bf = BF;
    static constexpr int N = int(sizeof...(W));
    static int width(int k) { static const int w[] = {W...}; return w[k]; }
    static int first(int k) { int s = 0; for (int i = 0; i < k; ++i) s += width(i); return s; }
    static int P() { return first(N); }                          // bits per pixel
    using sizes = mp::mp_list_c<unsigned, unsigned(W)...>;
    using layout = typename layout_of<N>::type;
    using packed_t = typename gil::packed_pixel_type<BF, sizes, layout>::type;
    using ref_t = gil::bit_aligned_pixel_reference<BF, sizes, layout, true>;
    using cref_t = gil::bit_aligned_pixel_reference<BF, sizes, layout, false>;
    using iter_t = gil::bit_aligned_pixel_iterator<ref_t>;
    using citer_t = gil::bit_aligned_pixel_iterator<cref_t>;
    static std::string name()
    {
        std::string s = std::string(bf_name<BF>::s()) + ":";
        for (int k = 0; k < N; ++k) s += (k ? "-" : "") + std::to_string(width(k));
        return s;
    }
    // channel values of pixel number x (x < 2^P when P < 64): channel k = bits [first(k), +width(k)) of x
    static uint64_t chan_of(uint64_t x, int k) { return (x >> first(k)) & ((width(k) >= 64 ? ~uint64_t(0) : (uint64_t(1) << width(k)) - 1)); }
};

// compile-time loop over channel indices: f(std::integral_constant<int,K>)
template <int N, class F> inline void for_channels(F&& f) { mp::mp_for_each<mp::mp_iota_c<N>>([&](auto k) { f(std::integral_constant<int, int(decltype(k)::value)>()); }); }

// values written into a channel of w bits: all of them up to 2^12, a fixed stratum above
inline std::vector<uint64_t> channel_values(int w)
{
    std::vector<uint64_t> v;
    const uint64_t mx = (uint64_t(1) << w) - 1;
    if (w <= 16) { for (uint64_t i = 0; i <= mx; ++i) v.push_back(i); return v; }
    for (uint64_t i = 0; i < 4; ++i) { v.push_back(i); v.push_back(mx - i); }
    for (int k = 0; k < w; ++k) { v.push_back(uint64_t(1) << k); v.push_back(mx ^ (uint64_t(1) << k)); }
    v.push_back(mx & 0x5555555555555555ull); v.push_back(mx & 0xAAAAAAAAAAAAAAAAull);
    std::sort(v.begin(), v.end()); v.erase(std::unique(v.begin(), v.end()), v.end());
    return v;
}
// the deltas applied with += to a channel of w bits (result is taken modulo 2^w)
inline std::vector<long> deltas(int w)
{
    const long n = 1L << w;
    std::vector<long> d = {-n - 1, -n, -n + 1, -3, -1, 0, 1, 2, n / 2, n - 1, n, n + 1, 1000003};
    std::sort(d.begin(), d.end()); d.erase(std::unique(d.begin(), d.end()), d.end());
    return d;
}

// Pattern backgrounds for a region of `nbytes` bytes in which bits [lo, hi) are "interesting":
// 0, ~0, 0xAA.., 0x55.., walking one and walking zero over [lo, hi), 16 hashed fills.
struct Pattern { std::string name; std::vector<unsigned char> bytes; };
inline std::vector<Pattern> pattern_backgrounds(size_t nbytes, size_t lo, size_t hi)
{
    std::vector<Pattern> r;
    auto mk = [&](std::string n, unsigned char f) { Pattern p; p.name = n; p.bytes.assign(nbytes, f); return p; };
    r.push_back(mk("zeros", 0x00)); r.push_back(mk("ones", 0xFF)); r.push_back(mk("aa", 0xAA)); r.push_back(mk("55", 0x55));
    for (size_t i = lo; i < hi; ++i)
    {
        Pattern a = mk("w1@" + std::to_string(i), 0x00); a.bytes[i >> 3] |= (unsigned char)(1u << (i & 7)); r.push_back(a);
        Pattern b = mk("w0@" + std::to_string(i), 0xFF); b.bytes[i >> 3] &= (unsigned char)~(1u << (i & 7)); r.push_back(b);
    }
    for (int k = 0; k < 16; ++k) { Pattern p = mk("h" + std::to_string(k), 0); model::fill_hashed(p.bytes.data(), nbytes, 0xC08 + k); r.push_back(p); }
    return r;
}

} // namespace c08
