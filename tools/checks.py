"""Registry of checks: harness TUs, the (group, bounds, shards) runs of each tier, evidence text.
Bounds are run-time arguments of the harness binaries, so quick and thorough share binaries."""

ASSUME_COMMON = [
    'g++ 12 / libstdc++ / x86-64 little-endian; GIL built as the repository suite builds it (-DNDEBUG), -O1/-O2',
    'the harness reference models (plain integer / long double arithmetic written without GIL) are correct',
]

CHECKS = {}

NOT_APPLICABLE = {}

# properties whose checks have been run end-to-end on the unchanged tree and are registered in MANIFEST.json
CLAIMED = ['C01', 'C02', 'C03', 'C04', 'C05', 'C06', 'C07', 'C08', 'C09', 'C10', 'C11', 'C12', 'C13', 'C14', 'C15', 'C16', 'C17', 'C18', 'C19', 'C20']

# one fragment per property under tools/checks.d/, exec'd in this namespace
import os as _os, glob as _glob
for _f in sorted(_glob.glob(_os.path.join(_os.path.dirname(_os.path.abspath(__file__)), 'checks.d', '*.py'))):
    with open(_f) as _fh:
        exec(compile(_fh.read(), _f, 'exec'))
