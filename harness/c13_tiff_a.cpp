// C13 TIFF part A: bit-aligned gray types and gray8
#include "c13_tiff.hpp"
using Part = mp::mp_list<gil::gray1_image_t, gil::gray2_image_t, gil::gray4_image_t, gil::gray8_image_t>;
using PartB = mp::mp_list<gil::gray16_image_t, gil::gray32f_image_t, gil::rgb8_image_t, gil::rgb16_image_t, gil::rgb32f_image_t>;
using PartC = mp::mp_list<gil::rgba8_image_t, gil::rgba16_image_t, gil::cmyk8_image_t, gil::cmyk16_image_t>;
// parts A, B and C are exactly the computed list of supported types minus bgr8 (same file layout as rgb8)
static_assert(mp::mp_size<mp::mp_set_union<Part, PartB, PartC>>::value + 1 == mp::mp_size<c12::Supported<gil::tiff_tag>>::value, "TIFF parts must cover the supported list");
static_assert(mp::mp_all_of_q<mp::mp_append<Part, PartB, PartC>, c12::IsRW<gil::tiff_tag>>::value, "TIFF part types must be supported");
VH_GROUP(seeds) { tiff_seeds<Part>(ctx); }
VH_GROUP(samples)
{
    vh::ubsan_counts() = false;
    TIFFSetErrorHandler(tiff_quiet); TIFFSetWarningHandler(tiff_quiet);
    Opts o; o.devmask = int(ctx.B("devmask", 7));
    std::string path = "/repo/test/extension/io/images/tiff/test.tif";
    std::vector<unsigned char> bytes = c13::slurp(path);
    if (bytes.size() < 8 || !ctx.take()) return;
    SeedView sv; sv.name = "sample:test.tif"; sv.bytes = &bytes; sv.path = path; sv.subrects = false; sv.big = true;
    int spp = 0, bps = 0;
    try { auto b = gil::read_image_info(path, gil::tiff_tag()); spp = b._info._samples_per_pixel; bps = b._info._bits_per_sample; } catch (...) {}
    ++ctx.counters[std::string(vh::S() << "sample_tiff_spp" << spp << "_bps" << bps)];
    if (spp == 1 && bps == 8) { ++ctx.witness["sample_files"]; run_typed<gil::gray8_image_t>(ctx, sv, o); }
    else ++ctx.counters["sample_not_native_to_this_part"];
}
VH_MAIN
