// C04 — TU 8: source and destination of the SAME colour space and channel type but DIFFERENT channel order
// (rgb8 <-> bgr8, rgba8 -> abgr8, rgb16 -> bgr16): compatible pixels, so copy_pixels / copy_and_convert_pixels /
// transform_pixels must pair channels by colour; a byte-wise fast path (memmove) is wrong here.  Const and mutable
// sources (they select different std::copy overloads), contiguous / padded / sub-view on both sides.
#include "c04_common.hpp"
namespace c04 {
template <> struct Name<gil::abgr8_pixel_t> { static const char* get() { return "abgr8"; } };
template <> struct Name<gil::bgr16_pixel_t> { static const char* get() { return "bgr16"; } };
}
using namespace c04;

using R8  = FamI<gil::rgb8_pixel_t>;
using R8c = FamI<gil::rgb8_pixel_t, true>;
using B8  = FamI<gil::bgr8_pixel_t>;
using B8c = FamI<gil::bgr8_pixel_t, true>;
using A8c = FamI<gil::rgba8_pixel_t, true>;
using AB8 = FamI<gil::abgr8_pixel_t>;
using R16c = FamI<gil::rgb16_pixel_t, true>;
using B16 = FamI<gil::bgr16_pixel_t>;

VH_GROUP(pairs_layouts)
{
    vh::ubsan_counts() = false;
    int N = int(ctx.B("N", 4)), X0 = int(ctx.B("X0", 3));
    PairRunner<R8c, B8, R8c, false>::run(ctx, N, X0);
    PairRunner<R8, B8, R8, false>::run(ctx, N, X0);
    PairRunner<B8c, R8, B8c, false>::run(ctx, N, X0);
    PairRunner<A8c, AB8, A8c, false>::run(ctx, N, X0);
    PairRunner<R16c, B16, R16c, false>::run(ctx, N, X0);
    ++ctx.witness["cross_layout_pairs"];
}
VH_MAIN
