// F13c: top-down BMP (negative height) is decoded upside down: _top_down is set but never used
#include <boost/gil.hpp>
#include <boost/gil/extension/io/bmp.hpp>
#include <sstream>
#include <iostream>
using namespace boost::gil;
static void le(std::string& s, unsigned v, int n) { for (int i = 0; i < n; ++i) s += char(v >> (8 * i)); }
int main() {   // 1x2, 24 bit, height = -2: first stored row is the TOP row (red), second the bottom row (blue)
    std::string f = "BM"; le(f, 62, 4); le(f, 0, 4); le(f, 54, 4);
    le(f, 40, 4); le(f, 1, 4); le(f, unsigned(-2), 4); le(f, 1, 2); le(f, 24, 2); le(f, 0, 4); le(f, 8, 4); le(f, 0, 4); le(f, 0, 4); le(f, 0, 4); le(f, 0, 4);
    f += std::string("\0\0\xff\0" "\xff\0\0\0", 8);            // BGR+pad: red ; blue
    rgb8_image_t img; std::istringstream in(f); read_image(in, img, bmp_tag());
    auto t = view(img)(0, 0);
    std::cout << "top pixel should be red (255,0,0): got " << int(t[0]) << "," << int(t[1]) << "," << int(t[2]) << "\n";
}
