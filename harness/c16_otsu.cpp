// C16 (part 2) — threshold_optimal (Otsu) terminates without undefined behaviour for 8- and 16-bit,
// signed and unsigned, constant and empty images, and its output equals threshold_binary for some
// single threshold per channel.
//
// Oracle (literal): (a) the call returns (no signal, no watchdog timeout), (b) no ASan/UBSan report and
// no byte outside the destination modified, (c) per channel there are a threshold t of the channel
// type and a value M with  dst = (src > t ? M : 0)  [regular]  /  (src > t ? 0 : M)  [inverse]  at every
// pixel.  Nothing is said about WHICH threshold Otsu picks, so that is not looked at.
//
// Space: every image with <= P pixels (all shapes w x h, w,h >= 1, w*h <= P, plus the empty shapes 0x0,
// 0x2, 2x0) over the 6-value alphabet {min, min+1, mid-1, mid, max-1, max} of u8, s8, u16, s16, both
// directions; every constant 2x2 image (all 256 / CONST16 = all 65536 or a 257-value stride) ; rgb8 and
// rgb16 images with <= PC pixels over the same alphabet per channel (nth_channel_view path).
//
// Cases run in forked children (vh::isolated): a chunk of 512 cases per child; if the child dies, times
// out or reports a sanitizer finding, the chunk is re-run one case per child so that the outcome is
// attributed to the exact case.
#include "c16_common.hpp"
#include <boost/gil/image_processing/threshold.hpp>

namespace gil = boost::gil;
using namespace c16;

template <class T> static std::vector<long> alphabet()
{
    long lo = (std::numeric_limits<T>::min)(), hi = (std::numeric_limits<T>::max)();
    long mid = lo + (hi - lo + 1) / 2;
    return {lo, lo + 1, mid - 1, mid, hi - 1, hi};
}

// is dst == (src > t ? M : 0) / (src > t ? 0 : M) for some t in [lo,hi] and some M ?
static bool is_binary_threshold_of(std::vector<long> const& s, std::vector<long> const& d, bool inverse, long lo, long hi)
{
    long M = 0; bool haveM = false;
    for (long v : d) if (v != 0) { if (haveM && v != M) return false; M = v; haveM = true; }
    if (!haveM) return true;                              // all zero: M = 0 (any t)
    std::vector<long> cand(s); cand.push_back(lo); cand.push_back(hi);
    for (long t : cand)
    {
        bool ok = true;
        for (size_t i = 0; i < s.size() && ok; ++i)
        {
            bool gt = s[i] > t;
            long e = inverse ? (gt ? 0 : M) : (gt ? M : 0);
            ok = d[i] == e;
        }
        if (ok) return true;
    }
    return false;
}

// one case: NC-channel image of T, values given per pixel per channel; returns "" or "sig\x1edetail"
template <class T, int NC> static std::string run_case(int w, int h, std::vector<long> const& vals, bool inverse)
{
    using Px = gil::pixel<T, typename std::conditional<NC == 1, gil::gray_layout_t, gil::rgb_layout_t>::type>;
    Buf<Px> src(w, h), dst(w, h, 0xA5);
    auto swv = src.view(); auto dv = dst.view();
    for (int i = 0; i < w * h; ++i) for (int c = 0; c < NC; ++c) swv(i % w, i / w)[c] = T(vals[size_t(i) * NC + c]);
    gil::threshold_optimal(src.cview(), dv, gil::threshold_optimal_value::otsu,
                           inverse ? gil::threshold_direction::inverse : gil::threshold_direction::regular);
    if (!dst.g.intact()) return "otsu:write-outside-destination\x1e";
    if (!src.g.intact()) return "otsu:write-into-source-surroundings\x1e";
    const long lo = (std::numeric_limits<T>::min)(), hi = (std::numeric_limits<T>::max)();
    for (int c = 0; c < NC; ++c)
    {
        std::vector<long> s, d;
        for (int i = 0; i < w * h; ++i) { s.push_back(vals[size_t(i) * NC + c]); d.push_back(long(dv(i % w, i / w)[c])); }
        if (!is_binary_threshold_of(s, d, inverse, lo, hi))
        {
            vh::S m; m << "channel " << c << ": src=["; for (long v : s) m << v << " "; m << "] dst=["; for (long v : d) m << v << " "; m << "]";
            return "otsu:output-is-no-binary-threshold-of-input\x1e" + m.str();
        }
    }
    return "";
}

struct Case { int w, h; bool inverse; std::vector<long> vals; std::string id; };

template <class T, int NC> struct OtsuRunner
{
    vh::Ctx& ctx;
    const char* tn;
    long unit_fails = 0, unit_hangs = 0;

    void report(Case const& c, std::string const& sig, std::string const& detail) { ++unit_fails; ctx.fail(c.id, sig, detail); }

    // run one case in its own child; records every kind of failure for exactly this case
    void single(Case const& c)
    {
        ++ctx.counters["otsu_children_single"];
        // a wall-clock expiry is confirmed by a second run with a 15x limit (vh::isolated); after three confirmed hangs of a unit no longer
        auto body_fn = [&](std::string& out) { out = run_case<T, NC>(c.w, c.h, c.vals, c.inverse); };
        vh::IsoResult r = unit_hangs < 3 ? vh::isolated(body_fn, 10.0) : vh::isolated_once(body_fn, 10.0);
        if (r.status == "timeout") ++unit_hangs;
        std::string body = r.payload, sans;
        size_t sp = body.find("\x1fSAN:");
        if (sp != std::string::npos) { sans = body.substr(sp); body = body.substr(0, sp); }
        if (r.status != "ok") { report(c, "otsu:" + r.status, "threshold_optimal did not return normally"); ++ctx.witness["otsu_abnormal_termination_seen"]; }
        else if (!body.empty()) { size_t q = body.find('\x1e'); report(c, body.substr(0, q), q == std::string::npos ? "" : body.substr(q + 1)); }
        std::set<std::string> uniq;
        for (size_t p = 0; (p = sans.find("\x1fSAN:", p)) != std::string::npos;)
        {
            size_t e = sans.find('\x1f', p + 1);
            uniq.insert(sans.substr(p + 5, e == std::string::npos ? std::string::npos : e - p - 5));
            p = e == std::string::npos ? sans.size() : e;
        }
        for (auto const& s : uniq) report(c, "otsu:" + s, "sanitizer report inside threshold_optimal for this image");
    }

    // run a chunk in one child; fall back to one child per case when anything at all is wrong
    void chunk(std::vector<Case> const& cs)
    {
        if (cs.empty()) return;
        ++ctx.counters["otsu_children_chunk"];
        vh::IsoResult r = vh::isolated_once([&](std::string& out) {      // anything abnormal is re-run case by case below
            for (size_t i = 0; i < cs.size(); ++i)
                if (!run_case<T, NC>(cs[i].w, cs[i].h, cs[i].vals, cs[i].inverse).empty()) { out = "bad"; return; }
        }, 60.0);
        if (r.status == "ok" && r.payload.empty()) return;
        ++ctx.counters["otsu_chunks_rerun_singly"];
        for (Case const& c : cs) { if (unit_fails >= 64) break; single(c); }
    }

    // unit = (shape, direction): all images over the alphabet
    void shape_unit(int w, int h, bool inverse)
    {
        const std::vector<long> A = alphabet<T>();
        const int cells = w * h * NC;
        long total = 1; for (int i = 0; i < cells; ++i) total *= long(A.size());
        unit_fails = 0; unit_hangs = 0;
        std::string ubase = vh::S() << "otsu/" << tn << "/" << w << "x" << h << "/" << (inverse ? "inverse" : "regular");
        ctx.cur = ubase;
        std::vector<Case> cs;
        for (long idx = 0; idx < total && unit_fails < 64; ++idx)
        {
            Case c{w, h, inverse, std::vector<long>(size_t(cells)), ""};
            long k = idx; bool constant = true;
            for (int i = 0; i < cells; ++i) { c.vals[size_t(i)] = A[size_t(k % long(A.size()))]; k /= long(A.size()); if (c.vals[size_t(i)] != c.vals[0]) constant = false; }
            vh::S id; id << ubase << "/";
            for (int i = 0; i < cells; ++i) id << (i ? "," : "") << c.vals[size_t(i)];
            if (cells == 0) id << "empty";
            c.id = id;
            cs.push_back(c);
            ++ctx.evaluations;
            if (cells > 0 && !constant) ++ctx.nontrivial;
            if (cells == 0) ++ctx.witness["otsu_empty_image"];
            else if (constant) ++ctx.witness["otsu_constant_image"];
            if (idx == total / 3) ctx.sample(vh::S() << c.id << " (" << total << " images in this unit)");
            if (cs.size() == 512) { chunk(cs); cs.clear(); }
        }
        if (unit_fails < 64) chunk(cs);
        if (unit_fails >= 64) ++ctx.counters["units_cut_after_64_failures"];
        ++ctx.witness[std::string("otsu_") + tn];
        ++ctx.witness[inverse ? "otsu_inverse" : "otsu_regular"];
    }

    void shapes(int P)
    {
        const int empties[3][2] = {{0, 0}, {0, 2}, {2, 0}};
        for (int inv = 0; inv < 2; ++inv)
        {
            for (auto& e : empties) { if (!ctx.take()) continue; shape_unit(e[0], e[1], inv != 0); }
            for (int h = 1; h <= P; ++h) for (int w = 1; w * h <= P; ++w)
            {
                if (!ctx.take()) continue;
                shape_unit(w, h, inv != 0);
                if (ctx.timed_out()) return;
            }
        }
    }

    // every constant 2x2 (and 1x1) image: values lo..hi with the given stride
    void constants(long stride)
    {
        const long lo = (std::numeric_limits<T>::min)(), hi = (std::numeric_limits<T>::max)();
        for (int shape = 0; shape < 2; ++shape) for (int inv = 0; inv < 2; ++inv)
        {
            const int w = shape ? 2 : 1, h = w;
            for (long base = lo; base <= hi; base += 4096 * stride)
            {
                if (!ctx.take()) continue;
                unit_fails = 0; unit_hangs = 0;
                std::string ubase = vh::S() << "otsu/" << tn << "/const" << w << "x" << h << "/" << (inv ? "inverse" : "regular");
                ctx.cur = ubase;
                std::vector<Case> cs;
                for (long v = base; v <= hi && v < base + 4096 * stride && unit_fails < 64; v += stride)
                {
                    Case c{w, h, inv != 0, std::vector<long>(size_t(w * h * NC), v), vh::S() << ubase << "/" << v};
                    cs.push_back(c);
                    ++ctx.evaluations; ++ctx.witness["otsu_constant_image"];
                    if (cs.size() == 512) { chunk(cs); cs.clear(); }
                }
                if (unit_fails < 64) chunk(cs);
                if (unit_fails >= 64) ++ctx.counters["units_cut_after_64_failures"];
                if (ctx.timed_out()) return;
            }
        }
    }
};

#define OTSU_GROUP(name, T, NC, tname_)                                                        \
    VH_GROUP(name)                                                                             \
    {                                                                                          \
        OtsuRunner<T, NC> r{ctx, tname_};                                                      \
        r.shapes(int(ctx.B(NC == 1 ? "P" : "PC", NC == 1 ? 4 : 1)));                           \
        if (NC == 1) r.constants(sizeof(T) == 1 ? 1 : (ctx.B("CONST16", 0) ? 1 : 257));        \
    }

OTSU_GROUP(otsu_u8, uint8_t, 1, "u8")
OTSU_GROUP(otsu_s8, int8_t, 1, "s8")
OTSU_GROUP(otsu_u16, uint16_t, 1, "u16")
OTSU_GROUP(otsu_s16, int16_t, 1, "s16")
OTSU_GROUP(otsu_rgb8, uint8_t, 3, "rgb8")
OTSU_GROUP(otsu_rgb16, uint16_t, 3, "rgb16")

VH_MAIN
