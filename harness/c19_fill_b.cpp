// C19 — fill_histogram / histogram::fill, 3-D and 4-D histograms (see c19_fill_a.cpp).
#include "c19_fill.hpp"
using namespace c19;
#define CFG_GROUP(name, ...) VH_GROUP(name) { run_cfg<Cfg<__VA_ARGS__>>(ctx); }
CFG_GROUP(rgb8,     uint8_t, 3, gil::histogram<int, int, int>)
CFG_GROUP(rgb8s,    int8_t, 3, gil::histogram<int, int, int>)
CFG_GROUP(rgb8_210, uint8_t, 3, gil::histogram<int, int, int>, 2, 1, 0)   // full-length, permuted channel selection
CFG_GROUP(rgb16,    uint16_t, 3, gil::histogram<int, int, int>)
CFG_GROUP(rgba8_310, uint8_t, 4, gil::histogram<int, int, int>, 3, 1, 0)
CFG_GROUP(rgba8,    uint8_t, 4, gil::histogram<int, int, int, int>)
CFG_GROUP(rgba16s,  int16_t, 4, gil::histogram<int, int, int, int>)
VH_MAIN
