// c08_ops.hpp — the channel-level operations of C08, shared by the packed_pixel harness (compile-time bit
// offsets, packed_channel_reference) and the bit-aligned harness (run-time offsets,
// packed_dynamic_channel_reference). A `Site` owns the memory GIL works on and hands out the channel
// proxies; every operation is: load the background, run ONE GIL operation, read the memory back, then
//   (1) "other-bits-changed":  some bit outside the bits the operation may change differs from the background
//   (2) "readback-differs":    reading the channel back through GIL does not yield the value written
// Whether the bits inside the channel equal the documented layout is only counted
// (counter stored_bits_differ_from_documented_layout) — the statement does not demand a representation.
#pragma once
#include "c08_model.hpp"

namespace c08 {

// Site concept:
//   static constexpr size_t LEN;                         bytes of memory compared per operation
//   void load(unsigned char const*); void store(unsigned char*);   copy LEN bytes into / out of the GIL-side memory
//   size_t tpos(), opos(), cpos();                       bit positions of the target pixel, the other (mutable) pixel, the const pixel
//   template <int K> tgt(), oth(), cst();                channel proxies (cst: IsMutable = false)
template <class C, class Site> struct ChanOps
{
    static constexpr size_t LEN = Site::LEN;
    vh::Ctx& ctx; Site& site;
    std::string where;                 // "<cfg>/o=<bit offset>/bg=<background id>"
    long fails = 0;
    unsigned char before[LEN + 16], got[LEN + 16], exp[LEN + 16], mask[LEN + 16];

    ChanOps(vh::Ctx& c, Site& s) : ctx(c), site(s)
    {
        std::memset(before, 0, sizeof before); std::memset(got, 0, sizeof got);
        std::memset(exp, 0, sizeof exp); std::memset(mask, 0, sizeof mask);
    }
    uint64_t bgnum = 0; int bghex = 0;   // when bghex > 0 the id gets "/bg=<bgnum as bghex hex digits>" appended lazily
    void set_background(unsigned char const* b, std::string const& w) { std::memcpy(before, b, LEN); where = w; bghex = 0; }
    void set_background_num(unsigned char const* b, uint64_t num, int hexdigits) { std::memcpy(before, b, LEN); bgnum = num; bghex = hexdigits; }

    // bit ranges the operation in flight may change; the mask is only materialised when the memory differs from `exp`
    size_t allow_pos[4], allow_w[4]; int nallow = 0;
    void allow(size_t pos, size_t w) { allow_pos[nallow] = pos; allow_w[nallow] = w; ++nallow; }
    void begin() { site.load(before); std::memcpy(exp, before, LEN); nallow = 0; }
    static constexpr long long NOARG = -0x7fffffffffffffffLL;
    void bad(const char* sig, const char* op, int K, long long a1, long long a2, std::string const& detail)
    {
        ++fails;
        vh::S id; id << where;
        if (bghex > 0) { char t[32]; snprintf(t, sizeof t, "/bg=%0*llx", bghex, (unsigned long long)bgnum); id << t; }
        id << "/ch=" << K << "/op=" << op << "/arg=" << a1; if (a2 != NOARG) id << "," << a2;
        ctx.fail(id, sig,
                 vh::S() << detail << " before=" << model::hex(before, LEN) << " after=" << model::hex(got, LEN));
    }
    // call after the GIL operation; rb_ok = every GIL read-back yielded the value written
    // a1[,a2]: the operands that identify the case (value written / old value, delta / swapped values)
    inline void finish(const char* op, int K, long long a1, long long a2, bool rb_ok, uint64_t rb_got = 0, uint64_t rb_want = 0)
    {
        site.store(got);
        ++ctx.evaluations;
        if (std::memcmp(got, exp, LEN) != 0)
        {
            std::memset(mask, 0, LEN);
            for (int i = 0; i < nallow; ++i) model::mark(mask, allow_pos[i], allow_w[i]);
            if (!model::others_unchanged(before, got, mask, LEN)) bad("other-bits-changed", op, K, a1, a2, "bits outside the written channel/pixel changed;");
            else ++ctx.counters["stored_bits_differ_from_documented_layout"];
        }
        if (!rb_ok) bad("readback-differs", op, K, a1, a2, vh::S() << "read back " << rb_got << ", written " << rb_want << ";");
        if (std::memcmp(got, before, LEN) != 0) ++ctx.nontrivial;
    }

    template <int K> void assign_values(std::vector<uint64_t> const& values)
    {
        using proxy_t = typename std::remove_const<decltype(site.template tgt<K>())>::type;
        using int_t = typename proxy_t::integer_t;
        const int w = C::width(K); const size_t p = site.tpos() + C::first(K);
        for (uint64_t v : values)
        {
            begin(); model::set(exp, p, w, v); allow(p, size_t(w));
            site.template tgt<K>() = int_t(v);
            const uint64_t rb = uint64_t(int_t(site.template tgt<K>()));
            finish("=", K, (long long)v, NOARG, rb == v, rb, v);
        }
    }

    template <int K> void arithmetic()
    {
        using proxy_t = typename std::remove_const<decltype(site.template tgt<K>())>::type;
        using int_t = typename proxy_t::integer_t;
        const int w = C::width(K); const size_t p = site.tpos() + C::first(K);
        const uint64_t mx = (uint64_t(1) << w) - 1;
        const uint64_t old = model::get(before, p, w);
        for (int op = 0; op < 4; ++op)
        {
            const uint64_t nv = (op < 2 ? old + 1 : old + mx) & mx;        // +1 / -1 modulo 2^w
            begin(); model::set(exp, p, w, nv); allow(p, size_t(w));
            if (op == 0) ++site.template tgt<K>();
            else if (op == 1) site.template tgt<K>()++;
            else if (op == 2) --site.template tgt<K>();
            else site.template tgt<K>()--;
            const uint64_t rb = uint64_t(int_t(site.template tgt<K>()));
            static const char* names[] = {"pre++", "post++", "pre--", "post--"};
            finish(names[op], K, (long long)old, NOARG, rb == nv, rb, nv);
            if (nv == 0 || nv == mx) ++ctx.witness["arith_wraparound"];
        }
        static thread_local std::vector<long> ds; static thread_local int ds_w = -1;
        if (ds_w != w) { ds = deltas(w); ds_w = w; }
        const long n = 1L << w;
        for (long d : ds)
        {
            const uint64_t nv = uint64_t((((long)old + d) % n + n) % n);
            begin(); model::set(exp, p, w, nv); allow(p, size_t(w));
            site.template tgt<K>() += int(d);
            const uint64_t rb = uint64_t(int_t(site.template tgt<K>()));
            finish("+=", K, (long long)old, (long long)d, rb == nv, rb, nv);
            if ((long)old + d < 0 || (long)old + d >= n) ++ctx.witness["arith_wraparound"];
        }
    }

    template <int K> void from_proxies()
    {
        using proxy_t = typename std::remove_const<decltype(site.template tgt<K>())>::type;
        using int_t = typename proxy_t::integer_t;
        using value_t = typename proxy_t::value_type;
        const int w = C::width(K);
        const size_t p = site.tpos() + C::first(K), po = site.opos() + C::first(K), pc = site.cpos() + C::first(K);
        const uint64_t mx = (uint64_t(1) << w) - 1;
        const uint64_t a = model::get(before, p, w), b = model::get(before, po, w), c = model::get(before, pc, w);
        {   // channel = mutable channel proxy of another pixel
            begin(); model::set(exp, p, w, b); allow(p, size_t(w));
            site.template tgt<K>() = site.template oth<K>();
            const uint64_t rb = uint64_t(int_t(site.template tgt<K>()));
            finish("=proxy", K, (long long)b, NOARG, rb == b, rb, b);
        }
        {   // channel = const channel proxy
            begin(); model::set(exp, p, w, c); allow(p, size_t(w));
            site.template tgt<K>() = site.template cst<K>();
            const uint64_t rb = uint64_t(int_t(site.template tgt<K>()));
            finish("=cproxy", K, (long long)c, NOARG, rb == c, rb, c);
        }
        {   // swap(proxy, proxy)
            begin(); model::set(exp, p, w, b); model::set(exp, po, w, a); allow(p, size_t(w)); allow(po, size_t(w));
            { auto const x = site.template tgt<K>(); auto const y = site.template oth<K>(); std::swap(x, y); }
            const uint64_t r1 = uint64_t(int_t(site.template tgt<K>())), r2 = uint64_t(int_t(site.template oth<K>()));
            finish("swap(proxy,proxy)", K, (long long)a, (long long)b, r1 == b && r2 == a, r1 * 65536 + r2, b * 65536 + a);
        }
        for (int side = 0; side < 2; ++side)
        {   // swap(proxy, value) and swap(value, proxy)
            const uint64_t vv = (a ^ (0x2Du + uint64_t(K) * 7u)) & mx;
            begin(); model::set(exp, p, w, vv); allow(p, size_t(w));
            value_t val = value_t(int_t(vv));
            { auto const x = site.template tgt<K>(); if (side == 0) std::swap(x, val); else std::swap(val, x); }
            const uint64_t r1 = uint64_t(int_t(site.template tgt<K>())), r2 = uint64_t(int_t(val));
            finish(side == 0 ? "swap(proxy,value)" : "swap(value,proxy)", K, (long long)a, (long long)vv, r1 == vv && r2 == a, r1 * 65536 + r2, vv * 65536 + a);
        }
    }
};

} // namespace c08
