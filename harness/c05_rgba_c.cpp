// C05 — rgba/bgra/argb/abgr with 4-bit channels, 13 mutually compatible models; this TU: destination models Rgba4444_h x all 13 sources
#include "c05_families.hpp"
using namespace c05;
VH_GROUP(rgba4444_h) { run_family<Rgba4444_h, Rgba4444>(ctx); }
// same families under a second name: the thorough tier runs them twice with different bounds (depth 3 / every value at depth 2)
VH_GROUP(rgba4444_h_v) { run_family<Rgba4444_h, Rgba4444>(ctx); }
VH_MAIN
