// C16 (part 3) — dilate/erode with a symmetric structuring element equal the maximum/minimum over the
// in-image neighbourhood (hence erode <= src <= dilate, monotone, opening <= src <= closing, opening and
// closing idempotent); median_filter returns the true median of the k x k neighbourhood under edge
// replication.  Sources/destinations are exactly-sized guarded buffers (no read outside the source, no
// write outside the destination).
//
// "Symmetric" structuring element: invariant under transposition AND under 180 degree rotation, centre
// at the middle and non-zero.  (morph_impl applies the transposed, reflected element; for these elements
// that is the element itself under every textbook convention, so nothing convention-dependent is
// compared.)  3x3: 3 orbits (edges, main-diagonal corners, anti-diagonal corners) -> all 8 elements;
// 5x5: 8 orbits -> all 256 elements (SE5=1) or cross / box / disc / diagonal (SE5=0).
#include "c16_common.hpp"
#include <boost/gil/image_processing/morphology.hpp>
#include <boost/gil/image_processing/filter.hpp>
#include <map>

namespace gil = boost::gil;
using namespace c16;

struct SE
{
    int n;                      // side
    std::vector<int> on;        // row-major n*n, 1 = member
    std::string name;
    bool at(int dx, int dy) const { int c = n / 2; return on[size_t((dy + c) * n + (dx + c))] != 0; }
};

// orbits of the group {id, transpose, rot180, anti-transpose} on the non-centre cells of an n x n grid
static std::vector<std::vector<int>> orbits(int n)
{
    std::vector<std::vector<int>> out; std::vector<int> seen(size_t(n * n), 0);
    int c = n / 2;
    for (int y = 0; y < n; ++y) for (int x = 0; x < n; ++x)
    {
        if ((x == c && y == c) || seen[size_t(y * n + x)]) continue;
        int cells[4][2] = {{x, y}, {y, x}, {n - 1 - x, n - 1 - y}, {n - 1 - y, n - 1 - x}};
        std::vector<int> o;
        for (auto& p : cells) { int i = p[1] * n + p[0]; if (!seen[size_t(i)]) { seen[size_t(i)] = 1; o.push_back(i); } }
        out.push_back(o);
    }
    return out;
}
static SE make_se(int n, unsigned mask)
{
    SE s; s.n = n; s.on.assign(size_t(n * n), 0); s.on[size_t((n / 2) * n + n / 2)] = 1;
    auto ob = orbits(n);
    for (size_t i = 0; i < ob.size(); ++i) if (mask >> i & 1) for (int cell : ob[i]) s.on[size_t(cell)] = 1;
    s.name = vh::S() << "se" << n << "x" << n << "#" << mask;
    return s;
}
static SE named_se5(const char* what)
{
    SE s; s.n = 5; s.on.assign(25, 0); s.name = std::string("se5x5:") + what;
    for (int y = -2; y <= 2; ++y) for (int x = -2; x <= 2; ++x)
    {
        bool in = std::string(what) == "box" ? true
                : std::string(what) == "cross" ? (x == 0 || y == 0)
                : std::string(what) == "disc" ? (x * x + y * y <= 4)
                : (x == y || x == -y);                                  // "diag"
        s.on[size_t((y + 2) * 5 + (x + 2))] = in;
    }
    return s;
}
static std::vector<SE> se_list(bool all5)
{
    std::vector<SE> v;
    for (unsigned m = 0; m < 8; ++m) v.push_back(make_se(3, m));
    if (all5) for (unsigned m = 0; m < 256; ++m) v.push_back(make_se(5, m));
    else for (const char* w : {"cross", "box", "disc", "diag"}) v.push_back(named_se5(w));
    return v;
}
static gil::detail::kernel_2d<float> to_kernel(SE const& s)
{
    std::vector<float> f(s.on.begin(), s.on.end());
    return gil::detail::kernel_2d<float>(f.begin(), f.size(), size_t(s.n / 2), size_t(s.n / 2));
}

using Img = std::vector<int>;     // row-major w*h

// textbook: max / min over the in-image neighbourhood {p + o : o in SE}
static Img ref_morph(Img const& a, int w, int h, SE const& s, bool dil)
{
    Img r(a.size()); int c = s.n / 2;
    for (int y = 0; y < h; ++y) for (int x = 0; x < w; ++x)
    {
        int acc = dil ? -(1 << 30) : 1 << 30;
        for (int dy = -c; dy <= c; ++dy) for (int dx = -c; dx <= c; ++dx)
        {
            if (!s.at(dx, dy)) continue;
            int qx = x + dx, qy = y + dy;
            if (qx < 0 || qx >= w || qy < 0 || qy >= h) continue;
            int v = a[size_t(qy * w + qx)];
            acc = dil ? std::max(acc, v) : std::min(acc, v);
        }
        r[size_t(y * w + x)] = acc;
    }
    return r;
}
static bool leq(Img const& a, Img const& b) { for (size_t i = 0; i < a.size(); ++i) if (a[i] > b[i]) return false; return true; }
static std::string show(Img const& a)
{
    bool wide = false; for (int v : a) if (v < 0 || v > 9) wide = true;
    vh::S s; for (size_t i = 0; i < a.size(); ++i) { if (wide && i) s << ","; s << a[i]; } return s;
}

enum Op { DIL1, DIL2, ERO1, ERO2, OPEN, CLOSE, NOPS };
static const char* OP_NAME[NOPS] = {"dilate1", "dilate2", "erode1", "erode2", "opening", "closing"};

struct Morph
{
    vh::Ctx& ctx;
    long fails_here = 0;

    // channel kind of the images: 0 gray8 over {0..V-1}; 1 gray8s over {-4,0,3}; 2 gray16s over {-300,0,7}; 3 gray16 over {0,1,300}
    int kind = 0;
    int val(int digit) const
    {
        static const int m1[] = {-4, 0, 3, -128, 127}, m2[] = {-300, 0, 7, -32768, 32767}, m3[] = {0, 1, 300, 65535, 2};
        return kind == 0 ? digit : kind == 1 ? m1[digit] : kind == 2 ? m2[digit] : m3[digit];
    }
    // run one GIL operation on an image held in guarded buffers; returns the result
    Img gil_op(int op, Img const& a, int w, int h, gil::detail::kernel_2d<float> const& k, std::string const& id)
    {
        return kind == 0 ? gil_op_t<gil::gray8_pixel_t>(op, a, w, h, k, id) : kind == 1 ? gil_op_t<gil::gray8s_pixel_t>(op, a, w, h, k, id)
             : kind == 2 ? gil_op_t<gil::gray16s_pixel_t>(op, a, w, h, k, id) : gil_op_t<gil::gray16_pixel_t>(op, a, w, h, k, id);
    }
    template <class Px> Img gil_op_t(int op, Img const& a, int w, int h, gil::detail::kernel_2d<float> const& k, std::string const& id)
    {
        using ch_t = typename gil::channel_type<Px>::type;
        Buf<Px> src(w, h), dst(w, h, 0xA5);
        auto swv = src.view(); auto dv = dst.view();
        for (int i = 0; i < w * h; ++i) swv(i % w, i / w)[0] = ch_t(a[size_t(i)]);
        auto sv = src.cview();
        switch (op)
        {
        case DIL1: gil::dilate(sv, dv, k, 1); break;
        case DIL2: gil::dilate(sv, dv, k, 2); break;
        case ERO1: gil::erode(sv, dv, k, 1); break;
        case ERO2: gil::erode(sv, dv, k, 2); break;
        case OPEN: gil::opening(sv, dv, k); break;
        default: gil::closing(sv, dv, k); break;
        }
        ++ctx.evaluations;
        Img r(a.size());
        for (int i = 0; i < w * h; ++i) r[size_t(i)] = int(dv(i % w, i / w)[0]);
        if (!dst.g.intact()) { ++fails_here; ctx.fail(id, "write-outside-destination"); }
        if (!src.g.intact()) { ++fails_here; ctx.fail(id, "write-into-source-surroundings"); }
        if (ctx.san_take(id)) ++fails_here;
        return r;
    }

    // unit = (shape, value alphabet size V, structuring element): every image over {0..V-1}
    void unit(int w, int h, int V, SE const& s, bool monotone_pairs)
    {
        const int cells = w * h;
        long total = 1; for (int i = 0; i < cells; ++i) total *= V;
        static const char* KN[] = {"", "gray8s/", "gray16s/", "gray16/"};
        std::string ubase = vh::S() << "morph/" << KN[kind] << w << "x" << h << "/v" << V << "/" << s.name;
        ctx.cur = ubase; fails_here = 0;
        auto k = to_kernel(s);
        std::vector<Img> dils, eros, srcs;
        for (long idx = 0; idx < total && fails_here < 64; ++idx)
        {
            Img a(size_t(cells), 0); long q = idx; bool flat = true;
            for (int i = 0; i < cells; ++i) { a[size_t(i)] = val(int(q % V)); q /= V; if (a[size_t(i)] != a[0]) flat = false; }
            std::string ibase = ubase + "/" + (cells ? show(a) : std::string("empty"));
            Img res[NOPS];
            for (int op = 0; op < NOPS; ++op) res[op] = gil_op(op, a, w, h, k, ibase + "/" + OP_NAME[op]);
            if (!flat) ctx.nontrivial += NOPS;
            // (1) dilate / erode equal the max / min over the in-image neighbourhood (1 and 2 iterations)
            Img d1 = ref_morph(a, w, h, s, true), e1 = ref_morph(a, w, h, s, false);
            Img d2 = ref_morph(d1, w, h, s, true), e2 = ref_morph(e1, w, h, s, false);
            auto cmp = [&](int op, Img const& exp, const char* sig) {
                if (res[op] != exp) { ++fails_here; ctx.fail(ibase + "/" + OP_NAME[op], sig, "got " + show(res[op]) + " expected " + show(exp)); }
            };
            cmp(DIL1, d1, "dilate!=max-over-neighbourhood"); cmp(DIL2, d2, "dilate!=max-over-neighbourhood");
            cmp(ERO1, e1, "erode!=min-over-neighbourhood"); cmp(ERO2, e2, "erode!=min-over-neighbourhood");
            // (2) erode <= src <= dilate
            if (!leq(res[ERO1], a) || !leq(a, res[DIL1])) { ++fails_here; ctx.fail(ibase, "not(erode<=src<=dilate)", "erode " + show(res[ERO1]) + " dilate " + show(res[DIL1])); }
            // (3) opening <= src <= closing
            if (!leq(res[OPEN], a)) { ++fails_here; ctx.fail(ibase + "/opening", "not(opening<=src)", "opening " + show(res[OPEN])); }
            if (!leq(a, res[CLOSE])) { ++fails_here; ctx.fail(ibase + "/closing", "not(src<=closing)", "closing " + show(res[CLOSE])); }
            // (4) opening and closing idempotent
            if (cells)
            {
                Img oo = gil_op(OPEN, res[OPEN], w, h, k, ibase + "/opening.opening");
                Img cc = gil_op(CLOSE, res[CLOSE], w, h, k, ibase + "/closing.closing");
                if (oo != res[OPEN]) { ++fails_here; ctx.fail(ibase + "/opening", "opening-not-idempotent", "once " + show(res[OPEN]) + " twice " + show(oo)); }
                if (cc != res[CLOSE]) { ++fails_here; ctx.fail(ibase + "/closing", "closing-not-idempotent", "once " + show(res[CLOSE]) + " twice " + show(cc)); }
                ++ctx.witness["morph_idempotence_checked"];
            }
            if (monotone_pairs) { srcs.push_back(a); dils.push_back(res[DIL1]); eros.push_back(res[ERO1]); }
            if (res[DIL1] != a) ++ctx.witness["morph_dilate_changes_image"];
            if (res[ERO1] != a) ++ctx.witness["morph_erode_changes_image"];
            if (res[OPEN] != a) ++ctx.witness["morph_opening_changes_image"];
            if (res[DIL2] != res[DIL1]) ++ctx.witness["morph_second_iteration_differs"];
            if (idx == total / 3 && cells) ctx.sample(vh::S() << ibase << ": dilate " << show(res[DIL1]) << " erode " << show(res[ERO1]) << " opening " << show(res[OPEN]) << " closing " << show(res[CLOSE]));
        }
        // (5) monotone: A <= B pointwise  =>  dilate(A) <= dilate(B) and erode(A) <= erode(B), every comparable pair
        if (monotone_pairs && fails_here < 64)
            for (size_t i = 0; i < srcs.size() && fails_here < 64; ++i) for (size_t j = 0; j < srcs.size(); ++j)
            {
                if (i == j || !leq(srcs[i], srcs[j])) continue;
                ++ctx.witness["morph_monotone_pairs_checked"];
                if (!leq(dils[i], dils[j])) { ++fails_here; ctx.fail(ubase + "/" + show(srcs[i]) + "<=" + show(srcs[j]), "dilate-not-monotone"); }
                if (!leq(eros[i], eros[j])) { ++fails_here; ctx.fail(ubase + "/" + show(srcs[i]) + "<=" + show(srcs[j]), "erode-not-monotone"); }
            }
        ++ctx.witness[s.n == 3 ? "morph_se3" : "morph_se5"];
        if (w != h) ++ctx.witness["morph_non_square_image"];
        if (cells == 0) ++ctx.witness["morph_empty_image"];
        if (fails_here >= 64) ++ctx.counters["units_cut_after_64_failures"];
    }
};

VH_GROUP(morph)
{
    vh::ubsan_counts() = false;
    const int PB = int(ctx.B("PB", 9)), PT = int(ctx.B("PT", 6)), PM = int(ctx.B("PM", 6));
    const std::vector<SE> ses = se_list(ctx.B("SE5", 0) != 0);
    Morph m{ctx};
    const int empties[3][2] = {{0, 0}, {0, 2}, {2, 0}};
    for (SE const& s : ses)
    {
        for (auto& e : empties) { if (!ctx.take()) continue; m.unit(e[0], e[1], 2, s, false); }
        for (int h = 1; h <= 5; ++h) for (int w = 1; w <= 5; ++w)
        {
            if (w * h <= PB) { if (ctx.take()) m.unit(w, h, 2, s, w * h <= PM); }      // all binary images
            if (w * h <= PT && w * h > 1) { if (ctx.take()) m.unit(w, h, 3, s, false); } // all images over {0,1,2}
            if (ctx.timed_out()) return;
        }
    }
}

// signed and 16-bit channels: every image over a 3-value alphabet that contains negative values, 0 and positive values
// (signed: the range minimum is not 0), up to PS cells, every symmetric 3x3 element and the four named 5x5 ones
VH_GROUP(morph_signed)
{
    vh::ubsan_counts() = false;
    const int PS = int(ctx.B("PS", 6)), VS = int(ctx.B("VS", 3));
    const std::vector<SE> ses = se_list(false);
    for (int kind = 1; kind <= 3; ++kind)
    {
        Morph m{ctx}; m.kind = kind;
        for (SE const& s : ses) for (int h = 1; h <= 4; ++h) for (int w = 1; w <= 4; ++w)
        {
            if (w * h > PS) continue;
            if (!ctx.take()) continue;
            m.unit(w, h, VS, s, w * h <= 4);
            ++ctx.witness[kind == 1 ? "morph_gray8s" : kind == 2 ? "morph_gray16s" : "morph_gray16"];
            if (ctx.timed_out()) return;
        }
    }
}

// rgb8: each channel is an independent gray image (all triples of binary images with <= PC cells)
VH_GROUP(morph_rgb8)
{
    vh::ubsan_counts() = false;
    const int PC = int(ctx.B("PC", 3));
    const std::vector<SE> ses = se_list(false);
    for (SE const& s : ses) for (int h = 1; h <= 4; ++h) for (int w = 1; w <= 4; ++w)
    {
        if (w * h > PC || w * h < 2) continue;
        if (!ctx.take()) continue;
        const int cells = w * h; const long per = 1L << cells;
        std::string ubase = vh::S() << "morph_rgb8/" << w << "x" << h << "/" << s.name;
        ctx.cur = ubase;
        auto k = to_kernel(s);
        long fails_here = 0;
        for (long idx = 0; idx < per * per * per && fails_here < 64; ++idx)
        {
            Img ch[3]; long q = idx;
            for (int c = 0; c < 3; ++c) { ch[c].resize(size_t(cells), 0); long bits = q % per; q /= per; for (int i = 0; i < cells; ++i) ch[c][size_t(i)] = int(bits >> i & 1) * (c + 1); }
            for (int dil = 0; dil < 2; ++dil)
            {
                Buf<gil::rgb8_pixel_t> src(w, h), dst(w, h, 0xA5);
                auto swv = src.view(); auto dv = dst.view();
                for (int i = 0; i < cells; ++i) for (int c = 0; c < 3; ++c) swv(i % w, i / w)[c] = uint8_t(ch[c][size_t(i)]);
                if (dil) gil::dilate(src.cview(), dv, k, 1); else gil::erode(src.cview(), dv, k, 1);
                ++ctx.evaluations; ++ctx.nontrivial;
                std::string id;
                auto mkid = [&]() { if (id.empty()) id = vh::S() << ubase << "/" << show(ch[0]) << "," << show(ch[1]) << "," << show(ch[2]) << "/" << (dil ? "dilate1" : "erode1"); return id; };
                for (int c = 0; c < 3; ++c)
                {
                    Img exp = ref_morph(ch[c], w, h, s, dil != 0), got(size_t(cells), 0);
                    for (int i = 0; i < cells; ++i) got[size_t(i)] = dv(i % w, i / w)[c];
                    if (got != exp) { ++fails_here; ctx.fail(mkid(), dil ? "dilate!=max-over-neighbourhood" : "erode!=min-over-neighbourhood", vh::S() << "channel " << c << " got " << show(got) << " expected " << show(exp)); break; }
                }
                if (!dst.g.intact()) { ++fails_here; ctx.fail(mkid(), "write-outside-destination"); }
                {
                    // a destination of the same colour space in another channel order: every COLOUR is the max/min over its own neighbourhood
                    Buf<gil::bgr8_pixel_t> dstb(w, h, 0xA5);
                    auto dvb = dstb.view();
                    if (dil) gil::dilate(src.cview(), dvb, k, 1); else gil::erode(src.cview(), dvb, k, 1);
                    ++ctx.evaluations; ++ctx.nontrivial;
                    for (int c = 0; c < 3; ++c)
                    {
                        Img exp = ref_morph(ch[c], w, h, s, dil != 0), got(size_t(cells), 0);
                        for (int i = 0; i < cells; ++i)
                        {
                            auto px = dvb(i % w, i / w);
                            got[size_t(i)] = c == 0 ? int(gil::get_color(px, gil::red_t())) : c == 1 ? int(gil::get_color(px, gil::green_t())) : int(gil::get_color(px, gil::blue_t()));
                        }
                        if (got != exp) { ++fails_here; ctx.fail(mkid() + "/rgb8>bgr8", dil ? "dilate!=max-over-neighbourhood" : "erode!=min-over-neighbourhood", vh::S() << "colour " << c << " got " << show(got) << " expected " << show(exp)); break; }
                    }
                    if (!dstb.g.intact()) { ++fails_here; ctx.fail(mkid() + "/rgb8>bgr8", "write-outside-destination"); }
                    ++ctx.witness["morph_rgb8_into_bgr8"];
                }
                if (ctx.san_take_lazy(mkid)) ++fails_here;
                ++ctx.witness["morph_rgb8_channels"];
                if (dil && idx == per * per * per / 3) ctx.sample(vh::S() << mkid() << ": every channel equals the max over its own neighbourhood");
            }
        }
        if (ctx.timed_out()) return;
    }
}

// ------------------------------------------------------------------------------------------------
// median_filter
// ------------------------------------------------------------------------------------------------
static int ref_median(Img const& a, int w, int h, int x, int y, int k)
{
    std::vector<int> win; int r = k / 2;
    for (int dy = -r; dy <= r; ++dy) for (int dx = -r; dx <= r; ++dx)
    {
        int qx = std::min(std::max(x + dx, 0), w - 1), qy = std::min(std::max(y + dy, 0), h - 1);   // edge replication
        win.push_back(a[size_t(qy * w + qx)]);
    }
    std::sort(win.begin(), win.end());
    return win[win.size() / 2];
}

VH_GROUP(median)
{
    vh::ubsan_counts() = false;
    const int PMED = int(ctx.B("PMED", 9)), KMAX = int(ctx.B("KMAX", 5)), V = 3;
    for (int h = 1; h <= 5; ++h) for (int w = 1; w <= 5; ++w)
    {
        if (w * h > PMED) continue;
        const int cells = w * h; long total = 1; for (int i = 0; i < cells; ++i) total *= V;
        for (int k = 1; k <= KMAX; k += 2)
        {
            const long CH = 2048;
            for (long base = 0; base < total; base += CH)
            {
                if (!ctx.take()) continue;
                std::string ubase = vh::S() << "median/" << w << "x" << h << "/k" << k;
                ctx.cur = ubase; long fails_here = 0;
                Buf<gil::gray8_pixel_t> src(w, h), dst(w, h);
                auto swv = src.view(); auto dv = dst.view(); auto sv = src.cview();
                for (long idx = base; idx < std::min(total, base + CH) && fails_here < 64; ++idx)
                {
                    Img a(size_t(cells), 0); long q = idx; bool flat = true;
                    for (int i = 0; i < cells; ++i) { a[size_t(i)] = int(q % V); q /= V; if (a[size_t(i)] != a[0]) flat = false; swv(i % w, i / w)[0] = uint8_t(a[size_t(i)]); }
                    dst.fill_bytes(0xA5);
                    gil::median_filter(sv, dv, size_t(k));
                    ++ctx.evaluations; if (!flat && k > 1) ++ctx.nontrivial;
                    Img got(size_t(cells), 0), exp(size_t(cells), 0);
                    for (int i = 0; i < cells; ++i) { got[size_t(i)] = dv(i % w, i / w)[0]; exp[size_t(i)] = ref_median(a, w, h, i % w, i / w, k); }
                    std::string id;
                    auto mkid = [&]() { if (id.empty()) id = ubase + "/" + show(a); return id; };
                    if (got != exp) { ++fails_here; ctx.fail(mkid(), "median!=true-median-under-edge-replication", "got " + show(got) + " expected " + show(exp)); }
                    if (!dst.g.intact()) { ++fails_here; ctx.fail(mkid(), "write-outside-destination"); }
                    if (!src.g.intact()) { ++fails_here; ctx.fail(mkid(), "write-into-source-surroundings"); }
                    if (ctx.san_take_lazy(mkid)) ++fails_here;
                    ++ctx.witness[std::string("median_k") + std::to_string(k)];
                    if (k / 2 >= w || k / 2 >= h) ++ctx.witness["median_window_wider_than_image"];
                    if (got != a) ++ctx.witness["median_changes_image"];
                    if (idx == total / 3) ctx.sample(vh::S() << mkid() << " -> " << show(got));
                }
                if (ctx.timed_out()) return;
            }
        }
    }
}

// rgb8: three independent channels (all triples of {0,1,2}-images with <= PCM cells)
VH_GROUP(median_rgb8)
{
    vh::ubsan_counts() = false;
    const int PCM = int(ctx.B("PCM", 2)), V = 3;
    for (int h = 1; h <= 3; ++h) for (int w = 1; w <= 3; ++w)
    {
        if (w * h > PCM || w * h < 2) continue;
        const int cells = w * h; long per = 1; for (int i = 0; i < cells; ++i) per *= V;
        for (int k = 3; k <= 5; k += 2)
        {
            if (!ctx.take()) continue;
            std::string ubase = vh::S() << "median_rgb8/" << w << "x" << h << "/k" << k;
            ctx.cur = ubase; long fails_here = 0;
            Buf<gil::rgb8_pixel_t> src(w, h), dst(w, h);
            auto swv = src.view(); auto dv = dst.view();
            for (long idx = 0; idx < per * per * per && fails_here < 64; ++idx)
            {
                Img ch[3]; long q = idx;
                for (int c = 0; c < 3; ++c) { ch[c].resize(size_t(cells), 0); long d = q % per; q /= per; for (int i = 0; i < cells; ++i) { ch[c][size_t(i)] = int(d % V) + 10 * c; d /= V; swv(i % w, i / w)[c] = uint8_t(ch[c][size_t(i)]); } }
                dst.fill_bytes(0xA5);
                gil::median_filter(src.cview(), dv, size_t(k));
                ++ctx.evaluations; ++ctx.nontrivial;
                std::string id;
                auto mkid = [&]() { if (id.empty()) id = vh::S() << ubase << "/" << show(ch[0]) << "," << show(ch[1]) << "," << show(ch[2]); return id; };
                for (int c = 0; c < 3; ++c) for (int i = 0; i < cells; ++i)
                {
                    int exp = ref_median(ch[c], w, h, i % w, i / w, k), got = dv(i % w, i / w)[c];
                    if (got != exp) { ++fails_here; ctx.fail(mkid(), "median!=true-median-under-edge-replication", vh::S() << "channel " << c << " pixel " << i << " got " << got << " expected " << exp); c = 3; break; }
                }
                if (!dst.g.intact()) { ++fails_here; ctx.fail(mkid(), "write-outside-destination"); }
                if (ctx.san_take_lazy(mkid)) ++fails_here;
                ++ctx.witness["median_rgb8_channels"];
                if (idx == per * per * per / 3) ctx.sample(vh::S() << mkid() << ": every channel equals its own median");
            }
            if (ctx.timed_out()) return;
        }
    }
}

VH_MAIN
