#include <boost/gil.hpp>
#include <cstdio>
namespace gil = boost::gil;
struct Counter { int k = 0; gil::gray8_pixel_t operator()() { return gil::gray8_pixel_t(k++); } };
int main() {
    gil::gray8_image_t a(3, 2, 0), b(3, 2, 8);
    gil::generate_pixels(gil::view(a), Counter());
    gil::generate_pixels(gil::view(b), Counter());
    for (int y = 0; y < 2; ++y) { for (int x = 0; x < 3; ++x) printf("%d/%d ", int(gil::view(a)(x, y)[0]), int(gil::view(b)(x, y)[0])); printf("\n"); }
}
