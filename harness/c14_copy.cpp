// C14 (copy_pixels / equal_pixels) — every ordered pair of alternatives x every shape 0..S x the call forms
// any/any, any/concrete, concrete/any, mutable-any/any, step-variant source, step-variant destination against the concrete call on twin images (c14_algo.hpp).
// equal_pixels additionally runs four content modes: all pixels different, all equal, equal except the last
// pixel, equal except the first pixel.
#include "c14_algo.hpp"

using namespace c14;

namespace {

struct CopyAlg
{
    static constexpr bool always = false, readonly = false;
    template <class S, class D> long operator()(S const& s, D const& d) const { gil::copy_pixels(s, d); return 0; }
    template <class S, class D, class T> void prepare(S const&, D const&, int, T) const {}
};

struct EqualAlg
{
    static constexpr bool always = false, readonly = true;
    template <class S, class D> long operator()(S const& s, D const& d) const { return gil::equal_pixels(s, d) ? 1 : 0; }
    template <class S, class D> void prepare(S const&, D const&, int, std::false_type) const {}
    template <class S, class D> void prepare(S const& s, D const& d, int mode, std::true_type) const
    {
        if (mode == 0) return;                 // destination keeps seed 1: every pixel differs
        gil::copy_pixels(s, d);                // static overload (C04's subject, not under test here)
        if (d.width() <= 0 || d.height() <= 0) return;
        using ch_t = typename gil::channel_type<D>::type;
        if (mode == 2) { typename D::reference r = d(d.width() - 1, d.height() - 1); r[0] = ch_t(r[0] ^ 1); }
        if (mode == 3) { typename D::reference r = d(0, 0); int c = int(gil::num_channels<D>::value) - 1; r[c] = ch_t(r[c] ^ 1); }
    }
};

template <class Alg> struct PairLoop
{
    AlgoStats& st; Alg alg; int S, modes;
    template <class IJ> void operator()(IJ) const
    {
        constexpr int i = int(IJ::value) / N, j = int(IJ::value) % N;
        if (!st.ctx.take()) return;
        st.unit_fails = 0;
        for (int h = 0; h <= S; ++h) for (int w = 0; w <= S; ++w)
            for (int m = 0; m < modes; ++m) pair_case<i, j>(st, alg, w, h, w, h, m);
        ++st.ctx.witness[compat(i, j) ? "pairs_compatible" : "pairs_incompatible"];
        if (i != j && compat(i, j)) ++st.ctx.witness["pairs_compatible_distinct_types"];
        st.ctx.sample(vh::S() << st.alg << " " << INFO[i].name << ">" << INFO[j].name << ": " << (compat(i, j) ? "compatible, equals the concrete call" : "incompatible, std::bad_cast, destination unchanged")
                              << " for all shapes 0.." << S << " x 6 call forms");
    }
};

} // namespace

VH_GROUP(copy)
{
    vh::ubsan_counts() = false;
    AlgoStats st{ctx, "copy_pixels"};
    mp::mp_for_each<mp::mp_iota_c<N * N>>(PairLoop<CopyAlg>{st, CopyAlg(), int(ctx.B("S", 3)), 1});
}

VH_GROUP(equal)
{
    vh::ubsan_counts() = false;
    AlgoStats st{ctx, "equal_pixels"};
    mp::mp_for_each<mp::mp_iota_c<N * N>>(PairLoop<EqualAlg>{st, EqualAlg(), int(ctx.B("S", 3)), 4});
    // Two operands that are views of the SAME buffer, of the same type, with the same first pixel and the same dimensions, but a different
    // row stride (a 2x2 corner of a 4x4 image vs. a 2x2 interleaved view laid over its first four pixels): they hold different pixels,
    // so equal_pixels is false for the concrete call and must be false for every run-time typed overload (a shortcut on "the two views
    // compare equal" is wrong: view equality looks at the first pixel and the dimensions only).  Also a view against itself (true).
    if (ctx.take())
    {
        auto one = [&](auto tag_img, const char* name) {
            using I = decltype(tag_img);
            I img(4, 4);
            int n = 0; for (auto& p : gil::view(img)) { for (int c = 0; c < int(gil::num_channels<I>::value); ++c) p[c] = typename gil::channel_type<I>::type(10 + 7 * n + c); ++n; }
            auto v = gil::view(img);
            auto a = gil::subimage_view(v, 0, 0, 2, 2);
            auto b = gil::interleaved_view(2, 2, &v(0, 0), std::ptrdiff_t(2 * sizeof(typename I::value_type)));
            struct Pair { decltype(a) x; decltype(a) y; const char* what; };
            Pair pairs[] = {{a, b, "corner-vs-relaid"}, {b, a, "relaid-vs-corner"}, {a, a, "view-vs-itself"}};
            for (auto const& pr : pairs)
            {
                const bool want = gil::equal_pixels(pr.x, pr.y);
                AnyView ax(pr.x), ay(pr.y);
                const bool g1 = gil::equal_pixels(ax, ay), g2 = gil::equal_pixels(ax, pr.y), g3 = gil::equal_pixels(pr.x, ay);
                ctx.evaluations += 3; ctx.nontrivial += 3;
                const std::string id = std::string("equal_pixels/aliasing/") + name + "/" + pr.what;
                if (g1 != want) ctx.fail(id + "/any,any", "result-differs-from-concrete", want ? "concrete true" : "concrete false");
                if (g2 != want) ctx.fail(id + "/any,view", "result-differs-from-concrete", want ? "concrete true" : "concrete false");
                if (g3 != want) ctx.fail(id + "/view,any", "result-differs-from-concrete", want ? "concrete true" : "concrete false");
                ++ctx.witness["equal_aliasing_operands"];
            }
        };
        one(gil::gray8_image_t(), "gray8");
        one(gil::rgb8_image_t(), "rgb8");
    }
}

VH_MAIN
