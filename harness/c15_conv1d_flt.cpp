// C15 — correlate/convolve rows/cols, float accumulators.
//   gray32f -> gray32f, float kernel with non-dyadic taps: tolerance 1e-5 * sum|k| * max|src|
//   gray16  -> gray16 through a float accumulator with integer-valued taps: every product and sum is
//   exactly representable, so exact equality is required.
#include "c15_conv1d.hpp"

namespace gil = boost::gil;

struct CfgGray32f
{
    using src_px = gil::gray32f_pixel_t; using acc_px = gil::pixel<float, gil::gray_layout_t>; using dst_px = gil::gray32f_pixel_t;
    using ktype = float;
    static const bool is_float = true, float_acc = true, planar_src = false;
    static const char* name() { return "gray32f>gray32f"; }
    static gil::float32_t store(int v) { return gil::float32_t(float(v) * 0.01f); }
    static float ktap(int p) { return float(p) * 0.1f; }
    static double sentinel() { return -7777.0; }
};
struct CfgGray16
{
    using src_px = gil::gray16_pixel_t; using acc_px = gil::pixel<float, gil::gray_layout_t>; using dst_px = gil::gray16_pixel_t;
    using ktype = float;
    static const bool is_float = false, float_acc = true, planar_src = false;   // exact: integer-valued floats
    static const char* name() { return "gray16>float>gray16"; }
    static uint16_t store(int v) { return uint16_t(v); }
    static float ktap(int p) { return float(p); }
    static double sentinel() { return 48879.0; }   // 0xBEEF, larger than any sum (<= 251*58)
};

VH_GROUP(gray32f) { vh::ubsan_counts() = false; c15::Runner<CfgGray32f>{ctx}.run(); }
VH_GROUP(gray16_floatacc) { vh::ubsan_counts() = false; c15::Runner<CfgGray16>{ctx}.run(); }

VH_MAIN
