// C05 — cmyk (+ user-defined mykc order), gray, 5-channel devicen (+ user-defined permuted order)
#include "c05_families.hpp"
using namespace c05;
VH_GROUP(cmyk8) { run_family<Cmyk8, Cmyk8>(ctx); }
VH_GROUP(cmyk2222) { run_family<Cmyk2222, Cmyk2222>(ctx); }
VH_GROUP(gray8) { run_family<Gray8, Gray8>(ctx); }
VH_GROUP(gray4) { run_family<Gray4, Gray4>(ctx); }
VH_GROUP(gray1) { run_family<Gray1, Gray1>(ctx); }
VH_GROUP(dev5_8) { run_family<Dev5_8, Dev5_8>(ctx); }
VH_GROUP(dev5_12345) { run_family<Dev5_12345, Dev5_12345>(ctx); }
// same families under a second name: the thorough tier runs them twice with different bounds (depth 3 / every value at depth 2)
VH_GROUP(cmyk8_v) { run_family<Cmyk8, Cmyk8>(ctx); }
VH_GROUP(cmyk2222_v) { run_family<Cmyk2222, Cmyk2222>(ctx); }
VH_GROUP(dev5_12345_v) { run_family<Dev5_12345, Dev5_12345>(ctx); }
VH_MAIN

// Packed pixels whose channel bits do not fill the bit field (rgb555 / bgr555 in uint16_t: bit 15 unused; bgr121 in uint8_t: bits 4..7
// unused).  "Equality between compatible pixels pairs channels by colour name": pixels whose named colours agree are equal whatever
// the unused bits hold (they are reachable through the raw bit-field constructor, raw memory, or an assignment that preserves them).
VH_GROUP(packed_padding)
{
    namespace gil = boost::gil; namespace mp = boost::mp11;
    using P555 = gil::packed_pixel_type<uint16_t, mp::mp_list_c<unsigned, 5, 5, 5>, gil::rgb_layout_t>::type;
    using B555 = gil::packed_pixel_type<uint16_t, mp::mp_list_c<unsigned, 5, 5, 5>, gil::bgr_layout_t>::type;
    using P121 = gil::packed_pixel_type<uint8_t, mp::mp_list_c<unsigned, 1, 2, 1>, gil::bgr_layout_t>::type;
    long fails = 0;
    auto bad = [&](std::string const& id, const char* sig, std::string const& d) { if (++fails <= 64) ctx.fail(id, sig, d); };
    for (unsigned a = 0; a < 65536; ++a)
    {
        if ((a & 4095) == 0 && !ctx.take()) { a += 4095; continue; }
        P555 x{uint16_t(a)}, y{uint16_t(a ^ 0x8000u)}, z{uint16_t(a ^ 1u)};
        ++ctx.evaluations; ++ctx.nontrivial;
        const std::string id = vh::S() << "rgb555/bits=" << a;
        if (!(x == y) || (x != y)) bad(id, "equal-colours-but-operator==-false", "the two pixels differ only in the unused bit 15");
        if (!gil::static_equal(x, y)) bad(id, "equal-colours-but-static_equal-false", "");
        if ((x == z) || !(x != z)) bad(id, "different-colours-but-operator==-true", "the two pixels differ in the lowest channel bit");
        // assignment from the other channel order into a pixel whose unused bit is set keeps every named colour; the result equals a fresh copy
        B555 s; gil::get_color(s, gil::red_t()) = gil::get_color(x, gil::red_t()); gil::get_color(s, gil::green_t()) = gil::get_color(x, gil::green_t()); gil::get_color(s, gil::blue_t()) = gil::get_color(x, gil::blue_t());
        P555 d{uint16_t(0xFFFF)}; d = s;
        P555 c(s);
        if (!(d == s) || !(c == s)) bad(id, "assigned-pixel-not-equal-to-source", "");
        if (!(d == c)) bad(id, "equal-colours-but-operator==-false", "dst = bgr555 source (unused bit kept) compared with a copy constructed from the same source");
    }
    if (ctx.take())
    {
        for (unsigned a = 0; a < 256; ++a) for (unsigned b = 0; b < 256; ++b)
        {
            P121 x{uint8_t(a)}, y{uint8_t(b)};
            ++ctx.evaluations; if ((a & 15) == (b & 15) && a != b) ++ctx.nontrivial;
            const bool same = (a & 15) == (b & 15);
            if ((x == y) != same || (x != y) == same) bad(vh::S() << "bgr121/bits=" << a << "," << b, same ? "equal-colours-but-operator==-false" : "different-colours-but-operator==-true", "");
        }
        ++ctx.witness["packed_pixels_with_unused_bits"];
    }
}
