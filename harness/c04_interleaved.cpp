// C04 — pixel algorithms == the obvious (x,y) loop. TU 1: rgb8, source addressed by a raw pixel pointer
// (interleaved; mutable and const views) into every destination family; destination-only algorithms and
// equal_pixels for the interleaved family.
#include "c04_common.hpp"
using namespace c04;

using I8  = FamI<gil::rgb8_pixel_t>;
using I8c = FamI<gil::rgb8_pixel_t, true>;
using P8  = FamP<uint8_t>;
using X8  = FamX<I8>;
using T8  = FamT<I8>;

VH_GROUP(pairs_i)
{
    vh::ubsan_counts() = false;
    int N = int(ctx.B("N", 4)), X0 = int(ctx.B("X0", 3));
    PairRunner<I8, I8, P8>::run(ctx, N, X0);
    PairRunner<I8, P8, X8>::run(ctx, N, X0);
    PairRunner<I8, X8, T8>::run(ctx, N, X0);
    PairRunner<I8, T8, I8>::run(ctx, N, X0);
    PairRunner<I8c, I8, I8c, false>::run(ctx, N, X0);
    PairRunner<I8c, P8, I8c, false>::run(ctx, N, X0);
}
VH_GROUP(dst_i)
{
    vh::ubsan_counts() = false;
    int N = int(ctx.B("N", 4)), X0 = int(ctx.B("X0", 3));
    run_dst<I8>(ctx, N, X0);
}
VH_GROUP(equal_i)
{
    vh::ubsan_counts() = false;
    int N = int(ctx.B("N", 4)), X0 = int(ctx.B("X0", 3));
    EqualRunner<I8, I8>::run(ctx, N, X0);
    EqualRunner<I8c, I8c>::run(ctx, N, X0);
    EqualRunner<I8, I8c>::run(ctx, N, X0);
    EqualRunner<I8, P8>::run(ctx, N, X0);
    EqualRunner<I8, X8>::run(ctx, N, X0);
    EqualRunner<I8, T8>::run(ctx, N, X0);
}
VH_MAIN
