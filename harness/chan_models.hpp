// chan_models.hpp — the channel models enumerated by C06/C07 and their reference semantics.
// The reference side uses only __int128 / long double arithmetic on (lo, hi, value); it never
// calls GIL's channel algorithms.
#pragma once
#include <boost/gil/channel.hpp>
#include <boost/gil/channel_algorithm.hpp>
#include <boost/gil/typedefs.hpp>
#include <cstdint>
#include <cstring>
#include <cmath>
#include <vector>
#include <algorithm>
#include <string>

namespace cm {
namespace gil = boost::gil;
using i128 = __int128;

template <class T> struct M;

template <class T, int BITS, bool SIGNED> struct IntM
{
    using value_t = T;
    static constexpr bool is_float = false;
    static constexpr int bits = BITS;
    static i128 lo() { return SIGNED ? -(i128(1) << (BITS - 1)) : 0; }
    static i128 hi() { return SIGNED ? (i128(1) << (BITS - 1)) - 1 : (i128(1) << BITS) - 1; }
    static uint64_t count() { return uint64_t(hi() - lo()) + 1; }      // BITS <= 32
    static T make(uint64_t idx) { return T(int64_t(lo() + i128(idx))); }
    static i128 to_int(T v) { return i128(int64_t(v)); }
    static long double to_ld(T v) { return (long double)(int64_t(v)); }
};
template <> struct M<uint8_t> : IntM<uint8_t, 8, false> { static const char* name() { return "uint8"; } };
template <> struct M<int8_t> : IntM<int8_t, 8, true> { static const char* name() { return "int8"; } };
template <> struct M<uint16_t> : IntM<uint16_t, 16, false> { static const char* name() { return "uint16"; } };
template <> struct M<int16_t> : IntM<int16_t, 16, true> { static const char* name() { return "int16"; } };
template <> struct M<uint32_t> : IntM<uint32_t, 32, false> { static const char* name() { return "uint32"; } };
template <> struct M<int32_t> : IntM<int32_t, 32, true> { static const char* name() { return "int32"; } };

template <int N> struct M<gil::packed_channel_value<N>>
{
    using value_t = gil::packed_channel_value<N>;
    using int_t = typename value_t::integer_t;
    static constexpr bool is_float = false;
    static constexpr int bits = N;
    static const char* name() { static std::string s = "packed" + std::to_string(N); return s.c_str(); }
    static i128 lo() { return 0; }
    static i128 hi() { return (i128(1) << N) - 1; }
    static uint64_t count() { return uint64_t(1) << N; }
    static value_t make(uint64_t idx) { return value_t(int_t(idx)); }
    static i128 to_int(value_t v) { return i128(uint64_t(int_t(v))); }
    static long double to_ld(value_t v) { return (long double)(uint64_t(int_t(v))); }
};

template <> struct M<gil::float32_t>
{
    using value_t = gil::float32_t;
    static constexpr bool is_float = true;
    static constexpr int bits = 32;
    static const char* name() { return "float32"; }
    static i128 lo() { return 0; }
    static i128 hi() { return 1; }
    // index = IEEE bit pattern of a float in [0,1]: 0 .. 0x3f800000
    static uint64_t count() { return 0x3f800000ull + 1; }
    static value_t make(uint64_t idx) { uint32_t b = uint32_t(idx); float f; std::memcpy(&f, &b, 4); return value_t(f); }
    static i128 to_int(value_t) { return 0; }
    static long double to_ld(value_t v) { return (long double)(float(v)); }
};

// Index set enumerated for a model: dense [a,b) or an explicit sorted list (strata of 32-bit domains).
struct IndexSet
{
    bool dense = true;
    uint64_t a = 0, b = 0;
    std::vector<uint64_t> list;
    uint64_t size() const { return dense ? b - a : list.size(); }
};

// Stratum for 32-bit integral domains (index space 0..2^32-1), enumerated completely:
// {0..2^16} U {max-2^16..max} U {2^k, 2^k+-1} U {k*(max/1021)} U neighbourhoods of the 16-bit-scaled points
inline IndexSet stratum32()
{
    IndexSet s; s.dense = false;
    const uint64_t MAX = 0xffffffffull;
    for (uint64_t i = 0; i <= 65536; ++i) { s.list.push_back(i); s.list.push_back(MAX - i); }
    for (int k = 0; k < 32; ++k) for (int d = -1; d <= 1; ++d) { int64_t v = (int64_t(1) << k) + d; if (v >= 0 && uint64_t(v) <= MAX) s.list.push_back(uint64_t(v)); }
    for (uint64_t k = 0; k <= 1021; ++k) for (int d = -1; d <= 1; ++d) { int64_t v = int64_t(k * (MAX / 1021)) + d; if (v >= 0 && uint64_t(v) <= MAX) s.list.push_back(uint64_t(v)); }
    for (uint64_t k = 0; k <= 255; ++k) for (int d = -2; d <= 2; ++d) { int64_t v = int64_t(k * 16843009ull) + d; if (v >= 0 && uint64_t(v) <= MAX) s.list.push_back(uint64_t(v)); }
    std::sort(s.list.begin(), s.list.end());
    s.list.erase(std::unique(s.list.begin(), s.list.end()), s.list.end());
    return s;
}
// Stratum for float in [0,1] (index = bit pattern): all k/4096, i/255, i/65535 with +-2 ulp
// neighbours, the 2^16 smallest and the 2^16 largest patterns, every power of two.
inline IndexSet stratum_float()
{
    IndexSet s; s.dense = false;
    auto bits = [](float f) { uint32_t b; std::memcpy(&b, &f, 4); return uint64_t(b); };
    const uint64_t ONE = 0x3f800000ull;
    auto add = [&](float f) { uint64_t b = bits(f); for (int d = -2; d <= 2; ++d) { int64_t v = int64_t(b) + d; if (v >= 0 && uint64_t(v) <= ONE) s.list.push_back(uint64_t(v)); } };
    for (int k = 0; k <= 4096; ++k) add(k / 4096.0f);
    for (int i = 0; i <= 255; ++i) add(i / 255.0f);
    for (int i = 0; i <= 65535; ++i) add(i / 65535.0f);
    for (int i = 0; i <= 65535; ++i) add((i + 0.5f) / 65535.0f);
    for (uint64_t i = 0; i <= 65536; ++i) { s.list.push_back(i); s.list.push_back(ONE - i); }
    for (int e = 1; e < 127; ++e) add(std::ldexp(1.0f, -e));
    std::sort(s.list.begin(), s.list.end());
    s.list.erase(std::unique(s.list.begin(), s.list.end()), s.list.end());
    return s;
}

template <class Mdl> IndexSet full_or_stratum(bool full32)
{
    IndexSet s;
    if (Mdl::is_float) { if (full32) { s.a = 0; s.b = Mdl::count(); return s; } return stratum_float(); }
    if (Mdl::bits == 32 && !full32) return stratum32();
    s.a = 0; s.b = Mdl::count();
    return s;
}

} // namespace cm
