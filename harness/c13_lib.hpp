// c13_lib.hpp -- shared pieces of the C13 TUs for the library-backed formats (PNG, JPEG, TIFF): seeds are written at
// run time by GIL's own writers (tagged 5x4 / 4x3 / 9x2 images of every pixel type with is_write_supported &&
// is_read_supported), plus the repo's sample files.
#pragma once
#include "c13_common.hpp"
#include "c12_common.hpp"     // Candidates / Supported<Tag> (the compile-time support matrix)
#include <dirent.h>

namespace c13 {

template <class Tag>
struct LibFmtBase : DefaultDevices
{
    using tag = Tag;
    template <class Img> static Flat to_expected_space(Flat const& full, int) { return full; }

    // scanline rows of these formats are rows of the native pixel type
    template <class Img, class Reader> static int scan_row(Reader& r, gil::byte_t* p, std::vector<double>& out)
    { return scan_row_impl<Img>(r, p, out, typename gil::is_bit_aligned<typename Img::value_type>::type()); }
    template <class Img, class Reader> static int scan_row_impl(Reader& r, gil::byte_t* p, std::vector<double>& out, std::false_type)
    {
        using pixel_t = typename Img::value_type;
        long w = r._info._width;
        if (size_t(r._scanline_length) == size_t(w) * sizeof(pixel_t))
        {
            auto v = gil::interleaved_view(w, 1, reinterpret_cast<pixel_t const*>(p), std::ptrdiff_t(r._scanline_length));
            for (long x = 0; x < w; ++x) ioc::flat_px(v(x, 0), out);
            return int(gil::num_channels<pixel_t>::value);
        }
        // The scanline reader hands out raw rows; for files whose native read adds a channel (PNG tRNS -> alpha) the row
        // has one channel less than the native pixel.  Compare the common channels; any other layout is not interpreted.
        using ch_t = typename gil::channel_type<pixel_t>::type;
        constexpr int n = int(gil::num_channels<pixel_t>::value);
        if (n >= 2 && size_t(r._scanline_length) == size_t(w) * sizeof(ch_t) * size_t(n - 1))
        {
            ch_t const* q = reinterpret_cast<ch_t const*>(p);
            for (long i = 0; i < w * (n - 1); ++i) out.push_back(ioc::ch_num(q[i]));
            return n - 1;
        }
        throw std::runtime_error("harness: scanline row layout not interpretable");
    }
    template <class Img, class Reader> static int scan_row_impl(Reader& r, gil::byte_t* p, std::vector<double>& out, std::true_type)
    {
        using it_t = typename Img::view_t::x_iterator;
        long w = r._info._width;
        it_t it(p);
        for (long x = 0; x < w; ++x, ++it) { typename Img::value_type px(*it); ioc::flat_px(px, out); }
        return int(gil::num_channels<typename Img::view_t>::value);
    }
};

// exactly-sized destination: interleaved byte types in a guarded buffer, bit-aligned types in a fresh image
template <class Fmt, class Img>
inline void view_exact_any(Emit& e, ioc::Source const& src, int d, Flat const& full, std::false_type)
{ view_exact_interleaved<Fmt, Img>(e, src, d, full); }
template <class Fmt, class Img>
inline void view_exact_any(Emit& e, ioc::Source const& src, int d, Flat const& full, std::true_type)
{
    Img img(full.w, full.h);
    std::string err = guarded([&] { Fmt::with_dev(d, src, [&](auto& dev) { gil::read_view(dev, gil::view(img), typename Fmt::tag()); }); });
    if (!err.empty()) e.fail("read_view-throws", err);
    else { std::string df = ioc::diff(full, ioc::flat(gil::const_view(img))); if (!df.empty()) e.fail("read_view!=full", df); }
}

// a tagged image of type Img written by GIL's own writer into memory
template <class Img, class Tag, class Info>
inline std::vector<unsigned char> gil_written(long w, long h, Info const& info, Flat* content = nullptr)
{
    Img img(w, h);
    ioc::fill_content(gil::view(img), ioc::C_TAGS, 17);
    if (content) *content = ioc::flat(gil::const_view(img));
    std::stringstream ss(std::ios::in | std::ios::out | std::ios::binary);
    std::ostream& os = ss;
    gil::write_view(os, gil::view(img), info);      // mutable view: some writers do not accept const bit-aligned views
    std::string s = ss.str();
    return std::vector<unsigned char>(s.begin(), s.end());
}

inline std::vector<std::string> list_files(std::string const& dir, std::vector<std::string> const& exts)
{
    std::vector<std::string> names;
    if (DIR* d = opendir(dir.c_str()))
    {
        while (dirent* de = readdir(d))
        {
            std::string n = de->d_name;
            for (auto const& x : exts) if (n.size() > x.size() && n.substr(n.size() - x.size()) == x) names.push_back(n);
        }
        closedir(d);
    }
    std::sort(names.begin(), names.end());
    return names;
}
inline std::vector<unsigned char> slurp(std::string const& path)
{
    std::vector<unsigned char> bytes;
    FILE* f = fopen(path.c_str(), "rb");
    if (!f) return bytes;
    unsigned char b[65536]; size_t r;
    while ((r = fread(b, 1, sizeof b, f)) > 0) bytes.insert(bytes.end(), b, b + r);
    fclose(f);
    return bytes;
}

} // namespace c13
