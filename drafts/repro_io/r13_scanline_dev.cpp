// extra: make_scanline_reader(Device&, tag) does not compile (forwards to a (Device&, settings) overload that does not exist)
#include <boost/gil.hpp>
#include <boost/gil/extension/io/bmp.hpp>
#include <fstream>
int main() { std::ifstream in("x.bmp", std::ios::binary); auto r = boost::gil::make_scanline_reader(in, boost::gil::bmp_tag()); }
